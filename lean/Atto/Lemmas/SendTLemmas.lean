/-
  Atto/Lemmas/SendTLemmas.lean — helper definitions and lemmas for Props/C12t.lean: the redirect
  loop with transparent CONNECT tunnels (`sendLoopT`, Model/SendT.lean).
    * `tunnelHead` versus `initiateTunnel`;
    * one hop of `sendLoopT` split into its observation (`tn_obs`) and its outcome (`tn_step`),
      so that the loop has ONE equation (`tn_loop_cons`) of the same shape for plain hops and
      tunnel hops;
    * the URLs it visits (`tn_urls`), the per-index description of every observation (`tn_outs`);
    * `sendLoopT` refines `sendLoop` (`tn_agree_prefix`, `tn_agree_eq`);
    * the credentials of the proxy URLs influence nothing but the CONNECT head (`tn_nonint`).
  Reuses Lemmas/Redirect.lean (`rd_tunnels`, `rd_hopHdrs`, `rd_plainOut`, `rd_hdrsSeq`, …).
-/
import Atto.Model.SendT
import Atto.Lemmas.Redirect
namespace Atto
open Atto.Rd

/-! ### `tunnelHead` and `initiateTunnel` -/

theorem tn_tunnelHead_initiateTunnel (mh cap : Nat) (t : Transport) :
    initiateTunnel mh cap t = match tunnelHead mh cap t with | .inl f => f | .inr _ => .tlsStarted := by
  unfold initiateTunnel tunnelHead
  simp only
  generalize parseResponseHead bufSrc { buf := [], cap := cap, inner := t } mh = p
  obtain ⟨res, r1⟩ := p
  cases res with
  | ok v =>
    obtain ⟨status, hs⟩ := v
    simp only
    by_cases h2 : 200 ≤ status ∧ status < 300
    · simp only [h2, and_self, if_true]
    · simp only [h2, if_false]
      cases readToEndTake (Consts.connectBodyCap + r1.inner.length + 2) r1 Consts.connectBodyCap [] <;> rfl
  | err e => rfl
  | blocked => rfl
  | panic => rfl

/-- a refusal is never `tlsStarted` -/
theorem tn_tunnelHead_inl_ne_tls {mh cap : Nat} {t : Transport} {f : Final} :
    tunnelHead mh cap t = .inl f → f ≠ .tlsStarted := by
  unfold tunnelHead
  simp only
  generalize parseResponseHead bufSrc { buf := [], cap := cap, inner := t } mh = p
  obtain ⟨res, r1⟩ := p
  intro h hf
  subst hf
  cases res with
  | ok v =>
    obtain ⟨status, hs⟩ := v
    simp only at h
    by_cases h2 : 200 ≤ status ∧ status < 300
    · simp only [h2, and_self, if_true] at h; cases h
    · simp only [h2, if_false] at h
      cases hr : readToEndTake (Consts.connectBodyCap + r1.inner.length + 2) r1 Consts.connectBodyCap [] <;>
        rw [hr] at h <;> cases h
  | err e => cases h
  | blocked => cases h
  | panic => cases h

theorem tn_tunnelHead_inl {mh cap : Nat} {t : Transport} {f : Final} :
    tunnelHead mh cap t = .inl f → initiateTunnel mh cap t = f ∧ f ≠ .tlsStarted := by
  intro h
  refine ⟨?_, tn_tunnelHead_inl_ne_tls h⟩
  rw [tn_tunnelHead_initiateTunnel, h]

theorem tn_tunnelHead_inr {mh cap : Nat} {t : Transport} {r : BufR} :
    tunnelHead mh cap t = .inr r → initiateTunnel mh cap t = .tlsStarted := by
  intro h
  rw [tn_tunnelHead_initiateTunnel, h]

/-- `exchange` never answers `tlsStarted` -/
theorem tn_exchange_ne_tls (s : SendSettings) (req : Req) (cap n : Nat) (url : Url) (hop : Hop) :
    exchange s req cap n url hop ≠ .final .tlsStarted := by
  intro h
  unfold exchange at h
  split at h
  · cases h
  · cases h
  · cases h
  · split at h
    · cases h
    · split at h
      · cases h
      · split at h
        · cases h
        · split at h
          · cases h
          · split at h <;> cases h

/-! ### one hop -/

/-- the observation of a tunnel hop whose CONNECT was refused (or not answered) -/
def tn_connectOut (s : SendSettings) (url : Url) : HopOut :=
  { dialScheme := (rd_target s url).scheme, dialHost := (rd_target s url).host,
    dialPort := (rd_target s url).effPort, wrote := connectRequest url (rd_target s url), tlsName := none }

/-- the observation of a tunnel hop whose CONNECT was answered 2xx -/
def tn_agreedOut (s : SendSettings) (url : Url) : HopOut :=
  { tn_connectOut s url with tlsName := some url.host, tlsNameIsDomain := url.hostKind != 1 }

/-- the request written inside the tunnel: origin-form, the hop's own `Host` -/
def tn_innerReq (req : Req) (url : Url) (hdrs : Headers) (first : Bool) : Bytes :=
  writeRequest req.method url false (setHost hdrs url) (rd_body req first)

/-- what is observed on the connection `hop` made for `url`, with `hdrs` the header map left by
    the previous hop -/
def tn_obs (s : SendSettings) (req : Req) (cap : Nat) (hop : Hop) (url : Url) (hdrs : Headers)
    (first : Bool) : HopOutT :=
  if rd_tunnels s url then
    match tunnelHead s.maxHeaders cap hop.script with
    | .inl _ => { out := tn_connectOut s url }
    | .inr _ => { out := tn_agreedOut s url, inner := some (tn_innerReq req url hdrs first) }
  else { out := rd_plainOut s req url hdrs first }

/-- where the hop's response is read from (`inr`), or how the CONNECT failed (`inl`) -/
def tn_script (s : SendSettings) (cap : Nat) (hop : Hop) (url : Url) : Final ⊕ Transport :=
  if rd_tunnels s url then
    match tunnelHead s.maxHeaders cap hop.script with
    | .inl f => .inl f
    | .inr r => .inr (tunnelRest r)
  else .inr hop.script

/-- the outcome of one hop: stop with a result, or follow a redirect -/
def tn_step (s : SendSettings) (req : Req) (cap n : Nat) (hop : Hop) (url : Url) : HopRes :=
  match tn_script s cap hop url with
  | .inl f => .final f
  | .inr t => exchange s req cap n url { hop with script := t }

theorem tn_https_not_http (url : Url) (h : (url.scheme == str "https") = true) :
    (url.scheme == str "http") = false := by
  have : url.scheme = str "https" := by simpa using h
  rw [this]; decide +kernel

/-- what `rd_tunnels` means -/
theorem tn_tunnels_iff (s : SendSettings) (url : Url) :
    rd_tunnels s url = true ↔ ∃ p, s.proxy.forUrl url = some p ∧ url.scheme = str "https" := by
  unfold rd_tunnels
  cases s.proxy.forUrl url <;> simp

theorem tn_target_of_tunnels {s : SendSettings} {url p : Url} (hp : s.proxy.forUrl url = some p) :
    rd_target s url = p := by
  simp [rd_target, hp]

theorem tn_step_plain {s : SendSettings} {req : Req} {cap n : Nat} {hop : Hop} {url : Url} :
    rd_tunnels s url = false → tn_step s req cap n hop url = exchange s req cap n url hop := by
  intro ht; simp [tn_step, tn_script, ht]

theorem tn_step_refused {s : SendSettings} {req : Req} {cap n : Nat} {hop : Hop} {url : Url} {f : Final} :
    rd_tunnels s url = true → tunnelHead s.maxHeaders cap hop.script = .inl f →
    tn_step s req cap n hop url = .final f := by
  intro ht hh; simp [tn_step, tn_script, ht, hh]

theorem tn_step_agreed {s : SendSettings} {req : Req} {cap n : Nat} {hop : Hop} {url : Url} {r : BufR} :
    rd_tunnels s url = true → tunnelHead s.maxHeaders cap hop.script = .inr r →
    tn_step s req cap n hop url = exchange s req cap n url { hop with script := tunnelRest r } := by
  intro ht hh; simp [tn_step, tn_script, ht, hh]

/-- a hop is followed only below the limit, and to the URL its `Location` resolved to -/
theorem tn_step_follow_inv {s : SendSettings} {req : Req} {cap n : Nat} {hop : Hop} {url next : Url} :
    tn_step s req cap n hop url = .follow next →
    s.followRedirects = true ∧ n + 1 ≤ s.maxRedirections ∧ hop.resolved = some next := by
  unfold tn_step
  split
  · intro h; cases h
  · intro h
    obtain ⟨_, _, _, hf, _, hn, _, hr, _⟩ := rd_exchange_follow_inv h
    exact ⟨hf, hn, hr⟩

theorem tn_obs_plain {s : SendSettings} {req : Req} {cap : Nat} {hop : Hop} {url : Url} {hdrs : Headers}
    {first : Bool} : rd_tunnels s url = false →
    tn_obs s req cap hop url hdrs first = { out := rd_plainOut s req url hdrs first } := by
  intro ht; simp [tn_obs, ht]

theorem tn_obs_refused {s : SendSettings} {req : Req} {cap : Nat} {hop : Hop} {url : Url} {hdrs : Headers}
    {first : Bool} {f : Final} : rd_tunnels s url = true →
    tunnelHead s.maxHeaders cap hop.script = .inl f →
    tn_obs s req cap hop url hdrs first = { out := tn_connectOut s url } := by
  intro ht hh; simp [tn_obs, ht, hh]

theorem tn_obs_agreed {s : SendSettings} {req : Req} {cap : Nat} {hop : Hop} {url : Url} {hdrs : Headers}
    {first : Bool} {r : BufR} : rd_tunnels s url = true →
    tunnelHead s.maxHeaders cap hop.script = .inr r →
    tn_obs s req cap hop url hdrs first =
      { out := tn_agreedOut s url, inner := some (tn_innerReq req url hdrs first) } := by
  intro ht hh; simp [tn_obs, ht, hh]

/-- an observation has an `inner` request only on a tunnel hop whose CONNECT was agreed -/
theorem tn_obs_inner {s : SendSettings} {req : Req} {cap : Nat} {hop : Hop} {url : Url} {hdrs : Headers}
    {first : Bool} {w : Bytes} :
    (tn_obs s req cap hop url hdrs first).inner = some w →
    rd_tunnels s url = true ∧ (∃ r, tunnelHead s.maxHeaders cap hop.script = .inr r) ∧
      w = tn_innerReq req url hdrs first ∧
      (tn_obs s req cap hop url hdrs first).out = tn_agreedOut s url := by
  intro h
  cases ht : rd_tunnels s url with
  | false => rw [tn_obs_plain ht] at h; cases h
  | true =>
    cases hh : tunnelHead s.maxHeaders cap hop.script with
    | inl f => rw [tn_obs_refused ht hh] at h; cases h
    | inr r =>
      rw [tn_obs_agreed ht hh] at h ⊢
      simp only [Option.some.injEq] at h
      exact ⟨rfl, ⟨r, rfl⟩, h.symm, rfl⟩

/-- whatever the hop: who is dialled -/
theorem tn_obs_dial (s : SendSettings) (req : Req) (cap : Nat) (hop : Hop) (url : Url) (hdrs : Headers)
    (first : Bool) :
    (tn_obs s req cap hop url hdrs first).out.dialScheme = (rd_target s url).scheme ∧
    (tn_obs s req cap hop url hdrs first).out.dialHost = (rd_target s url).host ∧
    (tn_obs s req cap hop url hdrs first).out.dialPort = (rd_target s url).effPort := by
  cases ht : rd_tunnels s url with
  | false => rw [tn_obs_plain ht]; exact ⟨rfl, rfl, rfl⟩
  | true =>
    cases hh : tunnelHead s.maxHeaders cap hop.script with
    | inl f => rw [tn_obs_refused ht hh]; exact ⟨rfl, rfl, rfl⟩
    | inr r => rw [tn_obs_agreed ht hh]; exact ⟨rfl, rfl, rfl⟩

/-! ### `sendLoopT`, one equation -/

theorem tn_loop_nil (s : SendSettings) (req : Req) (cap : Nat) (url : Url) (n : Nat)
    (hdrs : Headers) (first : Bool) :
    sendLoopT s req cap [] url n hdrs first = ([], .outOfHops) := rfl

theorem tn_loop_cons (s : SendSettings) (req : Req) (cap : Nat) (hop : Hop) (rest : List Hop)
    (url : Url) (n : Nat) (hdrs : Headers) (first : Bool) :
    sendLoopT s req cap (hop :: rest) url n hdrs first =
      match tn_step s req cap n hop url with
      | .final f => ([tn_obs s req cap hop url hdrs first], f)
      | .follow next =>
        match rest with
        | [] => ([tn_obs s req cap hop url hdrs first], .outOfHops)
        | _ :: _ =>
          (tn_obs s req cap hop url hdrs first ::
            (sendLoopT s req cap rest next (n + 1) (rd_hopHdrs s hdrs url) false).1,
           (sendLoopT s req cap rest next (n + 1) (rd_hopHdrs s hdrs url) false).2) := by
  rw [sendLoopT]
  by_cases ht : rd_tunnels s url = true
  · have ht' : ((s.proxy.forUrl url).isSome && url.scheme == str "https") = true := ht
    have hs : (url.scheme == str "https") = true := by
      simp only [Bool.and_eq_true] at ht'; exact ht'.2
    have hh := tn_https_not_http url hs
    simp only [ht', if_true, tn_step, tn_script, tn_obs, ht]
    cases hth : tunnelHead s.maxHeaders cap hop.script with
    | inl f => rfl
    | inr r =>
      simp only [hh, Bool.false_and, tn_agreedOut, tn_connectOut, tn_innerReq, rd_target, rd_body, rd_hopHdrs]
      cases s.proxy.forUrl url <;> rfl
  · have ht' : ¬ ((s.proxy.forUrl url).isSome && url.scheme == str "https") = true := ht
    simp only [ht', tn_step, tn_script, tn_obs, ht]
    rfl

theorem tn_loop_final {s : SendSettings} {req : Req} {cap : Nat} {hop : Hop} {rest : List Hop}
    {url : Url} {n : Nat} {hdrs : Headers} {first : Bool} {f : Final} :
    tn_step s req cap n hop url = .final f →
    sendLoopT s req cap (hop :: rest) url n hdrs first = ([tn_obs s req cap hop url hdrs first], f) := by
  intro he; rw [tn_loop_cons]; simp [he]

theorem tn_loop_follow_nil {s : SendSettings} {req : Req} {cap : Nat} {hop : Hop}
    {url : Url} {n : Nat} {hdrs : Headers} {first : Bool} {next : Url} :
    tn_step s req cap n hop url = .follow next →
    sendLoopT s req cap [hop] url n hdrs first = ([tn_obs s req cap hop url hdrs first], .outOfHops) := by
  intro he; rw [tn_loop_cons]; simp [he]

theorem tn_loop_follow_cons {s : SendSettings} {req : Req} {cap : Nat} {hop h2 : Hop}
    {rest : List Hop} {url : Url} {n : Nat} {hdrs : Headers} {first : Bool} {next : Url} :
    tn_step s req cap n hop url = .follow next →
    sendLoopT s req cap (hop :: h2 :: rest) url n hdrs first =
      (tn_obs s req cap hop url hdrs first ::
        (sendLoopT s req cap (h2 :: rest) next (n + 1) (rd_hopHdrs s hdrs url) false).1,
       (sendLoopT s req cap (h2 :: rest) next (n + 1) (rd_hopHdrs s hdrs url) false).2) := by
  intro he; rw [tn_loop_cons]; simp [he]

/-! ### the URLs visited -/

/-- The URLs used for the successive hops of `sendLoopT`: first `url`, then what each followed
    hop's `Location` resolved to — through tunnels as well. -/
def tn_urls (s : SendSettings) (req : Req) (cap : Nat) : List Hop → Url → Nat → List Url
  | [], _, _ => []
  | hop :: rest, url, n =>
    match tn_step s req cap n hop url with
    | .final _ => [url]
    | .follow next =>
      match rest with
      | [] => [url]
      | _ :: _ => url :: tn_urls s req cap rest next (n + 1)

theorem tn_urls_final {s : SendSettings} {req : Req} {cap : Nat} {hop : Hop} {rest : List Hop}
    {url : Url} {n : Nat} {f : Final} : tn_step s req cap n hop url = .final f →
    tn_urls s req cap (hop :: rest) url n = [url] := by
  intro he; simp [tn_urls, he]

theorem tn_urls_follow_nil {s : SendSettings} {req : Req} {cap : Nat} {hop : Hop}
    {url : Url} {n : Nat} {next : Url} : tn_step s req cap n hop url = .follow next →
    tn_urls s req cap [hop] url n = [url] := by
  intro he; simp [tn_urls, he]

theorem tn_urls_follow_cons {s : SendSettings} {req : Req} {cap : Nat} {hop h2 : Hop} {rest : List Hop}
    {url : Url} {n : Nat} {next : Url} : tn_step s req cap n hop url = .follow next →
    tn_urls s req cap (hop :: h2 :: rest) url n = url :: tn_urls s req cap (h2 :: rest) next (n + 1) := by
  intro he; rw [tn_urls]; simp [he]

theorem tn_urls_head (s : SendSettings) (req : Req) (cap : Nat) (hop : Hop) (rest : List Hop) (url : Url)
    (n : Nat) : (tn_urls s req cap (hop :: rest) url n)[0]? = some url := by
  cases he : tn_step s req cap n hop url with
  | final f => rw [tn_urls_final he]; rfl
  | follow next =>
    cases rest with
    | nil => rw [tn_urls_follow_nil he]; rfl
    | cons h2 rest => rw [tn_urls_follow_cons he]; rfl

/-- at most one URL per connection, at most `max - n + 1` URLs -/
theorem tn_urls_length_le (s : SendSettings) (req : Req) (cap : Nat) (hops : List Hop) :
    ∀ (url : Url) (n : Nat), (tn_urls s req cap hops url n).length ≤ hops.length ∧
      (tn_urls s req cap hops url n).length ≤ s.maxRedirections - n + 1 := by
  induction hops with
  | nil => intro url n; simp [tn_urls]
  | cons hop rest ih =>
    intro url n
    cases he : tn_step s req cap n hop url with
    | final f => rw [tn_urls_final he]; simp
    | follow next =>
      cases rest with
      | nil => rw [tn_urls_follow_nil he]; simp
      | cons h2 rest =>
        rw [tn_urls_follow_cons he]
        obtain ⟨_, hn, _⟩ := tn_step_follow_inv he
        have := ih next (n + 1)
        simp only [List.length_cons] at this ⊢
        omega

/-- Hop `i+1` goes to the URL that hop `i`'s `Location` resolved to. -/
theorem tn_urls_next (s : SendSettings) (req : Req) (cap : Nat) (hops : List Hop) :
    ∀ (url : Url) (n i : Nat) (u' : Url), (tn_urls s req cap hops url n)[i + 1]? = some u' →
      ∃ hop u, hops[i]? = some hop ∧ (tn_urls s req cap hops url n)[i]? = some u ∧
        hop.resolved = some u' ∧ tn_step s req cap (n + i) hop u = .follow u' := by
  induction hops with
  | nil => intro url n i u' h; simp [tn_urls] at h
  | cons hop rest ih =>
    intro url n i u' h
    cases he : tn_step s req cap n hop url with
    | final f => rw [tn_urls_final he] at h; simp at h
    | follow next =>
      cases rest with
      | nil => rw [tn_urls_follow_nil he] at h; simp at h
      | cons h2 rest =>
        rw [tn_urls_follow_cons he] at h ⊢
        cases i with
        | zero =>
          simp only [Nat.zero_add, List.getElem?_cons_succ] at h
          rw [tn_urls_head] at h
          cases h
          exact ⟨hop, url, rfl, rfl, (tn_step_follow_inv he).2.2, he⟩
        | succ i =>
          simp only [List.getElem?_cons_succ] at h
          obtain ⟨hop', u, h1, h2', h3, h4⟩ := ih next (n + 1) i u' h
          refine ⟨hop', u, by simpa using h1, by simpa using h2', h3, ?_⟩
          have : n + (i + 1) = n + 1 + i := by omega
          rw [this]; exact h4

/-! ### the observations -/

theorem tn_outs_length (s : SendSettings) (req : Req) (cap : Nat) (hops : List Hop) :
    ∀ (url : Url) (n : Nat) (hdrs : Headers) (first : Bool),
      (sendLoopT s req cap hops url n hdrs first).1.length = (tn_urls s req cap hops url n).length := by
  induction hops with
  | nil => intro url n hdrs first; rfl
  | cons hop rest ih =>
    intro url n hdrs first
    cases he : tn_step s req cap n hop url with
    | final f => rw [tn_loop_final he, tn_urls_final he]; rfl
    | follow next =>
      cases rest with
      | nil => rw [tn_loop_follow_nil he, tn_urls_follow_nil he]; rfl
      | cons h2 rest =>
        rw [tn_loop_follow_cons he, tn_urls_follow_cons he]
        simp only [List.length_cons]
        rw [ih]

/-- Every observation of `sendLoopT`, by position: it is `tn_obs` of the `i`-th connection, the
    `i`-th URL of the chain and the header map left by the hops before (`rd_hdrsSeq`: only ever
    changed by `set_host`); the body is written in full on the very first hop only, unless it can
    be rewound. -/
theorem tn_outs (s : SendSettings) (req : Req) (cap : Nat) (hops : List Hop) :
    ∀ (url : Url) (n : Nat) (hdrs : Headers) (first : Bool) (i : Nat) (o : HopOutT),
      (sendLoopT s req cap hops url n hdrs first).1[i]? = some o →
      ∃ u hin hop, (tn_urls s req cap hops url n)[i]? = some u ∧
        (rd_hdrsSeq s hdrs (tn_urls s req cap hops url n))[i]? = some hin ∧
        hops[i]? = some hop ∧
        o = tn_obs s req cap hop u hin (first && i == 0) := by
  induction hops with
  | nil => intro url n hdrs first i o h; simp [sendLoopT] at h
  | cons hop rest ih =>
    intro url n hdrs first i o h
    have hzero : ∀ l : List Url, o = tn_obs s req cap hop url hdrs first →
        ∃ u hin hop', (url :: l)[0]? = some u ∧ (rd_hdrsSeq s hdrs (url :: l))[0]? = some hin ∧
          (hop :: rest)[0]? = some hop' ∧ o = tn_obs s req cap hop' u hin (first && 0 == 0) := by
      intro l ho
      refine ⟨url, hdrs, hop, rfl, rfl, rfl, ?_⟩
      rw [ho]; simp
    cases he : tn_step s req cap n hop url with
    | final f =>
      rw [tn_loop_final he] at h
      rw [tn_urls_final he]
      cases i with
      | succ i => simp at h
      | zero =>
        simp only [List.getElem?_cons_zero, Option.some.injEq] at h
        exact hzero [] h.symm
    | follow next =>
      cases rest with
      | nil =>
        rw [tn_loop_follow_nil he] at h
        rw [tn_urls_follow_nil he]
        cases i with
        | succ i => simp at h
        | zero =>
          simp only [List.getElem?_cons_zero, Option.some.injEq] at h
          exact hzero [] h.symm
      | cons h2 rest =>
        rw [tn_loop_follow_cons he] at h
        rw [tn_urls_follow_cons he]
        cases i with
        | zero =>
          simp only [List.getElem?_cons_zero, Option.some.injEq] at h
          exact hzero _ h.symm
        | succ i =>
          simp only [List.getElem?_cons_succ] at h
          obtain ⟨u, hin, hop', h1, h2', h3, h4⟩ := ih next (n + 1) (rd_hopHdrs s hdrs url) false i o h
          refine ⟨u, hin, hop', by simpa using h1, by simpa [rd_hdrsSeq] using h2', by simpa using h3, ?_⟩
          rw [h4]; simp

/-- Locality: if hop `i` is reached (at URL `u`) and its step is final, then that is the outcome
    of the whole loop and hop `i` is the last one. -/
theorem tn_final_at (s : SendSettings) (req : Req) (cap : Nat) (hops : List Hop) :
    ∀ (url : Url) (n : Nat) (hdrs : Headers) (first : Bool) (i : Nat) (u : Url) (hop : Hop) (f : Final),
      (tn_urls s req cap hops url n)[i]? = some u → hops[i]? = some hop →
      tn_step s req cap (n + i) hop u = .final f →
      (sendLoopT s req cap hops url n hdrs first).2 = f ∧
      (sendLoopT s req cap hops url n hdrs first).1.length = i + 1 := by
  induction hops with
  | nil => intro url n hdrs first i u hop f hu; simp [tn_urls] at hu
  | cons hop0 rest ih =>
    intro url n hdrs first i u hop f hu hh hs
    cases he : tn_step s req cap n hop0 url with
    | final f0 =>
      rw [tn_urls_final he] at hu
      cases i with
      | succ i => simp at hu
      | zero =>
        simp at hu hh; subst hu; subst hh
        rw [Nat.add_zero, he] at hs; cases hs
        rw [tn_loop_final he]; exact ⟨rfl, rfl⟩
    | follow next =>
      cases rest with
      | nil =>
        rw [tn_urls_follow_nil he] at hu
        cases i with
        | succ i => simp at hu
        | zero =>
          simp at hu hh; subst hu; subst hh
          rw [Nat.add_zero, he] at hs; cases hs
      | cons h2 rest =>
        rw [tn_urls_follow_cons he] at hu
        cases i with
        | zero =>
          simp at hu hh; subst hu; subst hh
          rw [Nat.add_zero, he] at hs; cases hs
        | succ i =>
          simp only [List.getElem?_cons_succ] at hu hh
          have e : n + (i + 1) = n + 1 + i := by omega
          rw [e] at hs
          obtain ⟨h1, h2'⟩ := ih next (n + 1) (rd_hopHdrs s hdrs url) false i u hop f hu hh hs
          rw [tn_loop_follow_cons he]
          exact ⟨h1, by simp [h2']⟩

/-! ### `sendLoopT` refines `sendLoop` -/

theorem tn_tunnelOut_refused (s : SendSettings) (url : Url) {f : Final} (hf : f ≠ .tlsStarted) :
    rd_tunnelOut s url f = tn_connectOut s url := by
  cases f <;> first | rfl | exact absurd rfl hf

theorem tn_tunnelOut_agreed (s : SendSettings) (url : Url) :
    rd_tunnelOut s url .tlsStarted = tn_agreedOut s url := rfl

/-- The observations of `sendLoop` — up to and including the first agreed tunnel, where it stops —
    are the first observations of `sendLoopT`, field by field (the `tlsName` fields included). -/
theorem tn_agree_prefix (s : SendSettings) (req : Req) (cap : Nat) (hops : List Hop) :
    ∀ (url : Url) (n : Nat) (hdrs : Headers) (first : Bool),
      (sendLoop s req cap hops url n hdrs first).1 <+:
        (sendLoopT s req cap hops url n hdrs first).1.map (·.out) := by
  induction hops with
  | nil => intro url n hdrs first; exact List.prefix_refl _
  | cons hop rest ih =>
    intro url n hdrs first
    cases ht : rd_tunnels s url with
    | true =>
      rw [rd_sendLoop_tunnel ht]
      cases hh : tunnelHead s.maxHeaders cap hop.script with
      | inl f =>
        obtain ⟨hi, hne⟩ := tn_tunnelHead_inl hh
        rw [tn_loop_final (tn_step_refused ht hh), tn_obs_refused ht hh, hi, tn_tunnelOut_refused s url hne]
        exact List.prefix_refl _
      | inr r =>
        rw [tn_tunnelHead_inr hh, tn_tunnelOut_agreed]
        have ho := @tn_obs_agreed s req cap hop url hdrs first r ht hh
        cases he : tn_step s req cap n hop url with
        | final f => rw [tn_loop_final he, ho]; exact List.prefix_refl _
        | follow next =>
          cases rest with
          | nil => rw [tn_loop_follow_nil he, ho]; exact List.prefix_refl _
          | cons h2 rest =>
            rw [tn_loop_follow_cons he, ho]
            exact ⟨_, rfl⟩
    | false =>
      have hs : tn_step s req cap n hop url = exchange s req cap n url hop := tn_step_plain ht
      have ho := @tn_obs_plain s req cap hop url hdrs first ht
      cases he : exchange s req cap n url hop with
      | final f =>
        rw [rd_sendLoop_final ht he, tn_loop_final (hs.trans he), ho]; exact List.prefix_refl _
      | follow next =>
        cases rest with
        | nil => rw [rd_sendLoop_follow_nil ht he, tn_loop_follow_nil (hs.trans he), ho]; exact List.prefix_refl _
        | cons h2 rest =>
          rw [rd_sendLoop_follow_cons ht he, tn_loop_follow_cons (hs.trans he), ho]
          simp only [List.map_cons]
          exact (List.prefix_cons_inj _).mpr (ih next (n + 1) (rd_hopHdrs s hdrs url) false)

/-- If `sendLoop` does not end at a TLS handshake (no tunnel was agreed), `sendLoopT` observes the
    same connections and ends in the same way. -/
theorem tn_agree_eq (s : SendSettings) (req : Req) (cap : Nat) (hops : List Hop) :
    ∀ (url : Url) (n : Nat) (hdrs : Headers) (first : Bool),
      (sendLoop s req cap hops url n hdrs first).2 ≠ .tlsStarted →
      (sendLoopT s req cap hops url n hdrs first).1.map (·.out) = (sendLoop s req cap hops url n hdrs first).1 ∧
      (sendLoopT s req cap hops url n hdrs first).2 = (sendLoop s req cap hops url n hdrs first).2 := by
  induction hops with
  | nil => intro url n hdrs first _; exact ⟨rfl, rfl⟩
  | cons hop rest ih =>
    intro url n hdrs first hne
    cases ht : rd_tunnels s url with
    | true =>
      rw [rd_sendLoop_tunnel ht] at hne ⊢
      cases hh : tunnelHead s.maxHeaders cap hop.script with
      | inl f =>
        obtain ⟨hi, hnf⟩ := tn_tunnelHead_inl hh
        rw [tn_loop_final (tn_step_refused ht hh), tn_obs_refused ht hh, hi, tn_tunnelOut_refused s url hnf]
        exact ⟨rfl, rfl⟩
      | inr r => exact absurd (tn_tunnelHead_inr hh) hne
    | false =>
      have hs : tn_step s req cap n hop url = exchange s req cap n url hop := tn_step_plain ht
      have ho := @tn_obs_plain s req cap hop url hdrs first ht
      cases he : exchange s req cap n url hop with
      | final f =>
        rw [rd_sendLoop_final ht he, tn_loop_final (hs.trans he), ho]; exact ⟨rfl, rfl⟩
      | follow next =>
        cases rest with
        | nil => rw [rd_sendLoop_follow_nil ht he, tn_loop_follow_nil (hs.trans he), ho]; exact ⟨rfl, rfl⟩
        | cons h2 rest =>
          rw [rd_sendLoop_follow_cons ht he] at hne ⊢
          rw [tn_loop_follow_cons (hs.trans he), ho]
          obtain ⟨h1, h2'⟩ := ih next (n + 1) (rd_hopHdrs s hdrs url) false hne
          simp only [List.map_cons]
          rw [h1, h2']
          exact ⟨rfl, rfl⟩

/-- `sendLoop` ends with `tlsStarted` exactly when its last hop is an agreed tunnel. -/
theorem tn_sendLoop_tls_iff (s : SendSettings) (req : Req) (cap : Nat) (hops : List Hop) :
    ∀ (url : Url) (n : Nat) (hdrs : Headers) (first : Bool),
      (sendLoop s req cap hops url n hdrs first).2 = .tlsStarted ↔
      ∃ o, (sendLoop s req cap hops url n hdrs first).1.getLast? = some o ∧ o.tlsName.isSome := by
  induction hops with
  | nil => intro url n hdrs first; simp [sendLoop]
  | cons hop rest ih =>
    intro url n hdrs first
    cases ht : rd_tunnels s url with
    | true =>
      rw [rd_sendLoop_tunnel ht]
      cases hh : tunnelHead s.maxHeaders cap hop.script with
      | inl f =>
        obtain ⟨hi, hnf⟩ := tn_tunnelHead_inl hh
        rw [hi, tn_tunnelOut_refused s url hnf]
        simp [hnf, tn_connectOut]
      | inr r =>
        rw [tn_tunnelHead_inr hh, tn_tunnelOut_agreed]
        simp [tn_agreedOut]
    | false =>
      cases he : exchange s req cap n url hop with
      | final f =>
        rw [rd_sendLoop_final ht he]
        have : f ≠ .tlsStarted := fun hf => tn_exchange_ne_tls s req cap n url hop (hf ▸ he)
        simp [this, rd_plainOut]
      | follow next =>
        cases rest with
        | nil => rw [rd_sendLoop_follow_nil ht he]; simp [rd_plainOut]
        | cons h2 rest =>
          rw [rd_sendLoop_follow_cons ht he]
          have hne : (sendLoop s req cap (h2 :: rest) next (n + 1) (rd_hopHdrs s hdrs url) false).1 ≠ [] := by
            intro h0
            have := rd_outs_length s req cap (h2 :: rest) next (n + 1) (rd_hopHdrs s hdrs url) false
            rw [h0] at this
            have hh := rd_trace_head (rd_trace s req cap (h2 :: rest) next (n + 1) (rd_hopHdrs s hdrs url) false)
              (by simp)
            cases hl : rd_urls s req cap (h2 :: rest) next (n + 1) with
            | nil => rw [hl] at hh; simp at hh
            | cons a l => rw [hl] at this; simp at this
          rw [List.getLast?_cons_of_ne_nil hne]
          exact ih next (n + 1) (rd_hopHdrs s hdrs url) false

/-! ### headers: only `set_host` ever touches the map -/

theorem tn_hdrsSeq_other (s : SendSettings) (m : Bytes) (hm : m ≠ hName "host") (us : List Url)
    (hdrs : Headers) (i : Nat) (hin : Headers) (h : (rd_hdrsSeq s hdrs us)[i]? = some hin) :
    hin.getAll m = hdrs.getAll m :=
  rd_hdrsSeq_other s m hm us hdrs i hin h

theorem tn_setHost_other (h : Headers) (u : Url) (m : Bytes) (hm : m ≠ hName "host") :
    (setHost h u).getAll m = h.getAll m :=
  rd_getAll_insert_other _ _ _ _ hm

theorem tn_setHost_host (h : Headers) (u : Url) : (setHost h u).getAll (hName "host") = [u.authority] :=
  rd_getAll_insert_self _ _ _

theorem tn_pa_ne_host : str "proxy-authorization" ≠ hName "host" := by decide +kernel

/-! ### the proxy URLs' credentials -/

/-- two URLs that differ at most in `user` / `pass` -/
def Url.sameUpToCreds (p q : Url) : Prop := { p with user := q.user, pass := q.pass } = q

/-- both absent, or both present and equal up to `user` / `pass` -/
def tn_optSame : Option Url → Option Url → Prop
  | none, none => True
  | some p, some q => p.sameUpToCreds q
  | _, _ => False

/-- two proxy configurations that differ at most in the `user` / `pass` of the proxy URLs -/
def ProxySettings.sameUpToCreds (a b : ProxySettings) : Prop :=
  a.disabled = b.disabled ∧ a.noProxy = b.noProxy ∧
  tn_optSame a.httpProxy b.httpProxy ∧ tn_optSame a.httpsProxy b.httpsProxy

theorem Url.sameUpToCreds.fields {p q : Url} (h : p.sameUpToCreds q) :
    p.scheme = q.scheme ∧ p.host = q.host ∧ p.hostKind = q.hostKind ∧ p.port = q.port ∧
    p.effPort = q.effPort ∧ p.path = q.path ∧ p.query = q.query ∧ p.fragment = q.fragment := by
  unfold Url.sameUpToCreds at h
  rw [← h]
  exact ⟨rfl, rfl, rfl, rfl, rfl, rfl, rfl, rfl⟩

theorem Url.sameUpToCreds.authority {p q : Url} (h : p.sameUpToCreds q) : p.authority = q.authority := by
  obtain ⟨_, hh, _, hp, _⟩ := h.fields
  unfold Url.authority; rw [hh, hp]

theorem tn_optSame_refl (a : Option Url) : tn_optSame a a := by
  cases a with
  | none => trivial
  | some p => show p.sameUpToCreds p; rfl

theorem ProxySettings.sameUpToCreds.refl (a : ProxySettings) : a.sameUpToCreds a :=
  ⟨rfl, rfl, tn_optSame_refl _, tn_optSame_refl _⟩

/-- `for_url` does not look at the proxy URLs at all when it decides: the selections agree up to
    the credentials. -/
theorem tn_forUrl_same {a b : ProxySettings} (h : a.sameUpToCreds b) (u : Url) :
    tn_optSame (a.forUrl u) (b.forUrl u) := by
  obtain ⟨hd, hn, h1, h2⟩ := h
  unfold ProxySettings.forUrl
  rw [← hd, ← hn]
  split
  · trivial
  · split
    · trivial
    · split
      · exact h1
      · split
        · exact h2
        · trivial

/-- the second setting: the same, with the other proxy configuration -/
abbrev tn_with (s : SendSettings) (ps : ProxySettings) : SendSettings := { s with proxy := ps }

section nonint
variable {s : SendSettings} {ps : ProxySettings} (h : s.proxy.sameUpToCreds ps)
include h

theorem tn_ni_tunnels (u : Url) : rd_tunnels (tn_with s ps) u = rd_tunnels s u := by
  have := tn_forUrl_same h u
  unfold rd_tunnels
  show ((ps.forUrl u).isSome && _) = _
  cases h1 : s.proxy.forUrl u <;> cases h2 : ps.forUrl u <;> rw [h1, h2] at this <;>
    first | rfl | exact this.elim

theorem tn_ni_plainViaProxy (u : Url) : rd_plainViaProxy (tn_with s ps) u = rd_plainViaProxy s u := by
  have := tn_forUrl_same h u
  unfold rd_plainViaProxy
  show (_ && (ps.forUrl u).isSome) = _
  cases h1 : s.proxy.forUrl u <;> cases h2 : ps.forUrl u <;> rw [h1, h2] at this <;>
    first | rfl | exact this.elim

theorem tn_ni_hopHdrs (hdrs : Headers) (u : Url) : rd_hopHdrs (tn_with s ps) hdrs u = rd_hopHdrs s hdrs u := by
  have := tn_forUrl_same h u
  unfold rd_hopHdrs
  show (match ps.forUrl u with | some p => _ | none => _) = _
  cases h1 : s.proxy.forUrl u with
  | none =>
    cases h2 : ps.forUrl u with
    | none => rfl
    | some q => rw [h1, h2] at this; exact this.elim
  | some p =>
    cases h2 : ps.forUrl u with
    | none => rw [h1, h2] at this; exact this.elim
    | some q =>
      rw [h1, h2] at this
      have ha : p.authority = q.authority := Url.sameUpToCreds.authority this
      simp only [setHost, ha]

theorem tn_ni_target (u : Url) : (rd_target s u).sameUpToCreds (rd_target (tn_with s ps) u) := by
  have := tn_forUrl_same h u
  unfold rd_target
  show Url.sameUpToCreds _ ((ps.forUrl u).getD u)
  cases h1 : s.proxy.forUrl u with
  | none =>
    cases h2 : ps.forUrl u with
    | none => show u.sameUpToCreds u; rfl
    | some q => rw [h1, h2] at this; exact this.elim
  | some p =>
    cases h2 : ps.forUrl u with
    | none => rw [h1, h2] at this; exact this.elim
    | some q => rw [h1, h2] at this; exact this

theorem tn_ni_plainOut (req : Req) (u : Url) (hdrs : Headers) (first : Bool) :
    rd_plainOut (tn_with s ps) req u hdrs first = rd_plainOut s req u hdrs first := by
  obtain ⟨h1, h2, _, _, h5, _⟩ := (tn_ni_target h u).fields
  unfold rd_plainOut
  rw [tn_ni_plainViaProxy h, tn_ni_hopHdrs h, ← h1, ← h2, ← h5]

theorem tn_ni_script (cap : Nat) (hop : Hop) (u : Url) :
    tn_script (tn_with s ps) cap hop u = tn_script s cap hop u := by
  unfold tn_script; rw [tn_ni_tunnels h]

theorem tn_ni_step (req : Req) (cap n : Nat) (hop : Hop) (u : Url) :
    tn_step (tn_with s ps) req cap n hop u = tn_step s req cap n hop u := by
  unfold tn_step; rw [tn_ni_script h]; rfl

theorem tn_ni_urls (req : Req) (cap : Nat) (hops : List Hop) :
    ∀ (url : Url) (n : Nat), tn_urls (tn_with s ps) req cap hops url n = tn_urls s req cap hops url n := by
  induction hops with
  | nil => intro url n; rfl
  | cons hop rest ih =>
    intro url n
    have hs := tn_ni_step h req cap n hop url
    cases he : tn_step s req cap n hop url with
    | final f => rw [tn_urls_final he, tn_urls_final (hs.trans he)]
    | follow next =>
      cases rest with
      | nil => rw [tn_urls_follow_nil he, tn_urls_follow_nil (hs.trans he)]
      | cons h2 rest => rw [tn_urls_follow_cons he, tn_urls_follow_cons (hs.trans he), ih]

/-- the two observations of one hop: equal except for `wrote` on a tunnel hop, where both are the
    CONNECT head, for proxy URLs equal up to the credentials -/
theorem tn_ni_obs (req : Req) (cap : Nat) (hop : Hop) (u : Url) (hdrs : Headers) (first : Bool) :
    let o := tn_obs s req cap hop u hdrs first
    let o' := tn_obs (tn_with s ps) req cap hop u hdrs first
    o'.inner = o.inner ∧ o'.out.dialScheme = o.out.dialScheme ∧ o'.out.dialHost = o.out.dialHost ∧
    o'.out.dialPort = o.out.dialPort ∧ o'.out.tlsName = o.out.tlsName ∧
    o'.out.tlsNameIsDomain = o.out.tlsNameIsDomain ∧
    (rd_tunnels s u = false → o'.out.wrote = o.out.wrote) ∧
    (rd_tunnels s u = true → o.out.wrote = connectRequest u (rd_target s u) ∧
      o'.out.wrote = connectRequest u (rd_target (tn_with s ps) u)) := by
  intro o o'
  obtain ⟨h1, h2, _, _, h5, _⟩ := (tn_ni_target h u).fields
  have htt := tn_ni_tunnels h u
  cases ht : rd_tunnels s u with
  | false =>
    have e1 : o = { out := rd_plainOut s req u hdrs first } := tn_obs_plain ht
    have e2 : o' = { out := rd_plainOut (tn_with s ps) req u hdrs first } := tn_obs_plain (htt.trans ht)
    rw [e1, e2, tn_ni_plainOut h]
    exact ⟨rfl, rfl, rfl, rfl, rfl, rfl, fun _ => rfl, (fun h0 => by cases h0)⟩
  | true =>
    cases hh : tunnelHead s.maxHeaders cap hop.script with
    | inl f =>
      have e1 : o = { out := tn_connectOut s u } := tn_obs_refused ht hh
      have e2 : o' = { out := tn_connectOut (tn_with s ps) u } := tn_obs_refused (htt.trans ht) hh
      rw [e1, e2]
      exact ⟨rfl, h1.symm, h2.symm, h5.symm, rfl, rfl, (fun h0 => by cases h0), fun _ => ⟨rfl, rfl⟩⟩
    | inr r =>
      have e1 : o = { out := tn_agreedOut s u, inner := some (tn_innerReq req u hdrs first) } :=
        tn_obs_agreed ht hh
      have e2 : o' = { out := tn_agreedOut (tn_with s ps) u, inner := some (tn_innerReq req u hdrs first) } :=
        tn_obs_agreed (htt.trans ht) hh
      rw [e1, e2]
      exact ⟨rfl, h1.symm, h2.symm, h5.symm, rfl, rfl, (fun h0 => by cases h0), fun _ => ⟨rfl, rfl⟩⟩

/-- what does not depend on the credentials of the proxy URLs: everything but `wrote` -/
def tn_view (o : HopOutT) : Option Bytes × Bytes × Bytes × Nat × Option Bytes × Bool :=
  (o.inner, o.out.dialScheme, o.out.dialHost, o.out.dialPort, o.out.tlsName, o.out.tlsNameIsDomain)

theorem tn_ni_view (req : Req) (cap : Nat) (hop : Hop) (u : Url) (hdrs : Headers) (first : Bool) :
    tn_view (tn_obs (tn_with s ps) req cap hop u hdrs first) = tn_view (tn_obs s req cap hop u hdrs first) := by
  obtain ⟨a, b, c, d, e, f, _⟩ := tn_ni_obs h req cap hop u hdrs first
  simp only [tn_view, a, b, c, d, e, f]

/-- The loop: same outcome, same observations up to `wrote`. -/
theorem tn_nonint (req : Req) (cap : Nat) (hops : List Hop) :
    ∀ (url : Url) (n : Nat) (hdrs : Headers) (first : Bool),
      (sendLoopT (tn_with s ps) req cap hops url n hdrs first).2 = (sendLoopT s req cap hops url n hdrs first).2 ∧
      (sendLoopT (tn_with s ps) req cap hops url n hdrs first).1.map tn_view =
        (sendLoopT s req cap hops url n hdrs first).1.map tn_view := by
  induction hops with
  | nil => intro url n hdrs first; exact ⟨rfl, rfl⟩
  | cons hop rest ih =>
    intro url n hdrs first
    have hs := tn_ni_step h req cap n hop url
    have hv := tn_ni_view h req cap hop url hdrs first
    cases he : tn_step s req cap n hop url with
    | final f =>
      rw [tn_loop_final he, tn_loop_final (hs.trans he)]
      exact ⟨rfl, by simp only [List.map_cons, hv]⟩
    | follow next =>
      cases rest with
      | nil =>
        rw [tn_loop_follow_nil he, tn_loop_follow_nil (hs.trans he)]
        exact ⟨rfl, by simp only [List.map_cons, hv]⟩
      | cons h2 rest =>
        rw [tn_loop_follow_cons he, tn_loop_follow_cons (hs.trans he), tn_ni_hopHdrs h]
        obtain ⟨i1, i2⟩ := ih next (n + 1) (rd_hopHdrs s hdrs url) false
        exact ⟨i1, by simp only [List.map_cons, hv, i2]⟩

theorem tn_ni_hdrsSeq (us : List Url) :
    ∀ hdrs : Headers, rd_hdrsSeq (tn_with s ps) hdrs us = rd_hdrsSeq s hdrs us := by
  induction us with
  | nil => intro hdrs; rfl
  | cons u us ih => intro hdrs; simp only [rd_hdrsSeq, tn_ni_hopHdrs h, ih]

/-- The loop, `wrote`: position by position the two runs wrote the same bytes, or both wrote a
    CONNECT head for the same URL, to proxy URLs equal up to the credentials. -/
theorem tn_nonint_wrote (req : Req) (cap : Nat) (hops : List Hop) (url : Url) (n : Nat) (hdrs : Headers)
    (first : Bool) (i : Nat) (o o' : HopOutT) :
    (sendLoopT s req cap hops url n hdrs first).1[i]? = some o →
    (sendLoopT (tn_with s ps) req cap hops url n hdrs first).1[i]? = some o' →
    o'.out.wrote = o.out.wrote ∨
    ∃ u p p', s.proxy.forUrl u = some p ∧ ps.forUrl u = some p' ∧ p.sameUpToCreds p' ∧
      o.out.wrote = connectRequest u p ∧ o'.out.wrote = connectRequest u p' := by
  intro h1 h2
  obtain ⟨u, hin, hop, a1, a2, a3, a4⟩ := tn_outs s req cap hops url n hdrs first i o h1
  obtain ⟨u', hin', hop', b1, b2, b3, b4⟩ := tn_outs (tn_with s ps) req cap hops url n hdrs first i o' h2
  rw [tn_ni_urls h] at b1 b2
  rw [tn_ni_hdrsSeq h] at b2
  rw [a1] at b1; cases b1
  rw [a2] at b2; cases b2
  rw [a3] at b3; cases b3
  obtain ⟨_, _, _, _, _, _, c1, c2⟩ := tn_ni_obs h req cap hop u hin (first && i == 0)
  rw [← a4, ← b4] at c1 c2
  cases ht : rd_tunnels s u with
  | false => exact .inl (c1 ht)
  | true =>
    obtain ⟨p, hp, _⟩ := (tn_tunnels_iff s u).mp ht
    have hsame := tn_ni_target h u
    obtain ⟨d1, d2⟩ := c2 ht
    have ht' : rd_tunnels (tn_with s ps) u = true := (tn_ni_tunnels h u).trans ht
    obtain ⟨p', hp', _⟩ := (tn_tunnels_iff (tn_with s ps) u).mp ht'
    rw [tn_target_of_tunnels hp] at d1 hsame
    rw [tn_target_of_tunnels hp'] at d2 hsame
    exact .inr ⟨u, p, p', hp, hp', hsame, d1, d2⟩

end nonint

/-! ### `sendT` -/

/-- The URLs used for the successive hops of `sendT s req cap url hops`. -/
def urlsVisitedT (s : SendSettings) (req : Req) (cap : Nat) (url : Url) (hops : List Hop) : List Url :=
  tn_urls s req cap hops url 0

/-- The header map *left by the previous hop* for each hop of `sendT` (hop 0: the prepared headers
    of the request; afterwards only `set_host` has been applied). -/
def hdrsVisitedT (s : SendSettings) (req : Req) (cap : Nat) (url : Url) (hops : List Hop) : List Headers :=
  rd_hdrsSeq s req.headers (urlsVisitedT s req cap url hops)

end Atto
