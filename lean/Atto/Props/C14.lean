/-
  Atto/Props/C14.lean — "TLS peers are authenticated unless the caller explicitly opts out".
  What is proved here is attohttpc's own logic: which settings reach which handshake, which name each
  handshake is given, and the forgiveness rules of the rustls `CustomCertVerifier`. The X.509 verdict
  (`Tls.upstream`: chain building, validity period, name matching by webpki / OpenSSL) is a parameter;
  it is enumerated exhaustively against real handshakes by the harness (see DESIGN.md, C14).
-/
import Atto.Gen.Consts
import Atto.Model.Tls
import Atto.Props.C16
namespace Atto
open Tls

/-- The matrix of the statement: a peer is accepted iff its chain is trusted, it is within its
    validity period and it matches the name — or invalid certificates are accepted (waives
    everything) — or invalid host names are accepted and ONLY the name is wrong. -/
theorem C14_matrix (f : Flags) (chainOk timeOk nameOk : Bool) :
    verify f (upstream chainOk timeOk nameOk) = true ↔
      (chainOk = true ∧ timeOk = true ∧ nameOk = true) ∨ f.acceptInvalidCerts = true ∨
      (f.acceptInvalidHostnames = true ∧ chainOk = true ∧ timeOk = true) := by
  cases chainOk <;> cases timeOk <;> cases nameOk <;>
    cases h1 : f.acceptInvalidCerts <;> cases h2 : f.acceptInvalidHostnames <;>
    simp [verify, upstream, h1, h2]

example : verify ⟨false, true, 0⟩ (upstream true true false) = true ∧
          verify ⟨false, true, 0⟩ (upstream true false false) = false := by decide

/-- accepting invalid host names waives only the name match -/
theorem C14_hostnames_waives_only_name (roots : Nat) (chainOk timeOk nameOk : Bool) :
    verify ⟨false, true, roots⟩ (upstream chainOk timeOk nameOk) = (chainOk && timeOk) := by
  cases chainOk <;> cases timeOk <;> cases nameOk <;> rfl

/-- accepting invalid certificates waives everything -/
theorem C14_certs_waives_all (aih : Bool) (roots : Nat) (v : Verdict) :
    verify ⟨true, aih, roots⟩ v = true := by
  cases v <;> simp [verify]

/-- both flags are off by default, and then only a fully valid peer is accepted -/
theorem C14_default_off :
    applyBaseSettings ({} : Scalars) = ⟨false, false, 0⟩ ∧
    ∀ v, verify (applyBaseSettings ({} : Scalars)) v = true ↔ v = .ok := by
  refine ⟨rfl, ?_⟩
  intro v; cases v <;> simp [verify, applyBaseSettings]

/-- the handshaker carries exactly the three values of the request's own settings: no other setting
    influences it, and each of the three does -/
theorem C14_flags_reach_handshake (s : Scalars) :
    (applyBaseSettings s).acceptInvalidCerts = s.acceptInvalidCerts ∧
    (applyBaseSettings s).acceptInvalidHostnames = s.acceptInvalidHostnames ∧
    (applyBaseSettings s).roots = s.rootCerts ∧
    ∀ s' : Scalars, s'.acceptInvalidCerts = s.acceptInvalidCerts →
      s'.acceptInvalidHostnames = s.acceptInvalidHostnames → s'.rootCerts = s.rootCerts →
      applyBaseSettings s' = applyBaseSettings s := by
  refine ⟨rfl, rfl, rfl, ?_⟩
  intro s' h1 h2 h3
  simp [applyBaseSettings, h1, h2, h3]

example : applyBaseSettings { acceptInvalidCerts := true, maxHeaders := 7 } = ⟨true, false, 0⟩ := rfl

/-- which name each handshake is verified against: the URL's host for a direct connection; inside a
    CONNECT tunnel the ORIGIN's host, never the proxy's; an https proxy is itself verified against
    the proxy's host first -/
theorem C14_names (url : Url) (hs : url.scheme = str "https") :
    handshakeNames url none = [url.host] ∧
    (∀ p : Url, p.scheme = str "http" → handshakeNames url (some p) = [url.host]) ∧
    (∀ p : Url, p.scheme = str "https" → handshakeNames url (some p) = [p.host, url.host]) := by
  refine ⟨?_, ?_, ?_⟩
  · simp [handshakeNames, hs]
  · intro p hp
    have : (str "http" == str "https") = false := by decide +kernel
    simp [handshakeNames, hs, hp, this]
  · intro p hp
    simp [handshakeNames, hs, hp]

example : handshakeNames
    { scheme := str "https", user := [], pass := none, host := str "origin.test", hostKind := 0, port := none,
      effPort := 443, path := str "/", query := none, fragment := none }
    (some { scheme := str "http", user := [], pass := none, host := str "proxy.test", hostKind := 0, port := some 3128,
            effPort := 3128, path := str "/", query := none, fragment := none }) = [str "origin.test"] := by
  decide +kernel

/-- a flag or root set on a request (builder `b`) reaches neither the session nor any sibling request:
    corollary of the settings refinement C16, in every reachable state of the `Arc` machine -/
theorem C14_scope (hist : List SOp) (b : Nat) (f : Field) (v : Nat) :
    (∀ s, (((Heap.exec {} hist).exec [.bldSet b f v]).step (.obsSession s)).2
            = ((Heap.exec {} hist).step (.obsSession s)).2) ∧
    (∀ b', b' ≠ b → (((Heap.exec {} hist).exec [.bldSet b f v]).step (.obsBuilder b')).2
            = ((Heap.exec {} hist).step (.obsBuilder b')).2) :=
  C16_request_isolated_heap hist [.bldSet b f v] b (by intro op hop; simp at hop; subst hop; rfl)


/-- Tie to the source: `BaseSettings::default()` as extracted on this run has both flags off, and
    the model's defaults are those values. -/
theorem C14_default_table :
    Consts.defaultAcceptInvalidCerts = false ∧ Consts.defaultAcceptInvalidHostnames = false ∧
    ({} : Scalars).acceptInvalidCerts = Consts.defaultAcceptInvalidCerts ∧
    ({} : Scalars).acceptInvalidHostnames = Consts.defaultAcceptInvalidHostnames := by decide

end Atto
