/-
  Atto/Props/C11.lean — property C11: "proxy choice follows the curl conventions".
    (j) `ProxySettings::for_url`: a proxy is used exactly when proxies are not disabled, no
        `no_proxy` entry matches the host, and the scheme's proxy is configured;
    (k) a `no_proxy` entry matches a host exactly when the host equals it or is a sub-domain of it;
        empty entries match nothing; a host that merely ends with the same letters is not matched;
    (l) `ProxySettings::from_env` (`Url::parse` is a parameter): scheme-specific variable over
        ALL_PROXY, lower-case name over upper-case name, `no_proxy=*` disables everything, entries
        are comma-split / trimmed / stripped of leading dots / lower-cased, blank / unparsable /
        non-http(s) values are ignored, empty entries are harmless.
  Helper lemmas: Atto/Lemmas/ProxyLemmas.lean.
-/
import Atto.Lemmas.ProxyLemmas
namespace Atto
open Atto.Px

/-! ### (j) the decision -/

theorem C11_decision (s : ProxySettings) (u : Url) (p : Url) :
    s.forUrl u = some p ↔
      (s.disabled = false ∧ (∀ e ∈ s.noProxy, noProxyMatch u.host (lowerBytes e) = false) ∧
        ((u.scheme = str "http" ∧ s.httpProxy = some p) ∨
         (u.scheme = str "https" ∧ s.httpsProxy = some p))) :=
  px_forUrl_iff s u p

/-- Instance (left to right and right to left): https URL, https proxy set, a non-matching entry. -/
example :
    let s : ProxySettings := { httpProxy := none, httpsProxy := some (px_url "http" "p1" 3128),
                               disabled := false, noProxy := [str "example.org"] }
    s.forUrl (px_url "https" "example.com" 443) = some (px_url "http" "p1" 3128) := by
  intro s
  refine (C11_decision s _ _).mpr ⟨rfl, ?_, Or.inr ⟨rfl, rfl⟩⟩
  intro e he
  have : e = str "example.org" := by simpa [s] using he
  subst this; decide +kernel
example : ({ httpProxy := none, httpsProxy := some (px_url "http" "p1" 3128),
             disabled := false, noProxy := [str "example.org"] } : ProxySettings).forUrl
    (px_url "https" "example.com" 443) = some (px_url "http" "p1" 3128) := by decide +kernel
/-- A matching entry: no proxy. -/
example : ({ httpProxy := none, httpsProxy := some (px_url "http" "p1" 3128),
             disabled := false, noProxy := [str "example.com"] } : ProxySettings).forUrl
    (px_url "https" "www.example.com" 443) = none := by decide +kernel

/-- No proxy at all: the complement of `C11_decision`. -/
theorem C11_decision_none (s : ProxySettings) (u : Url) :
    s.forUrl u = none ↔
      (s.disabled = true ∨ (∃ e ∈ s.noProxy, noProxyMatch u.host (lowerBytes e) = true) ∨
        (u.scheme = str "http" ∧ s.httpProxy = none) ∨
        (u.scheme = str "https" ∧ s.httpsProxy = none) ∨
        (u.scheme ≠ str "http" ∧ u.scheme ≠ str "https")) := by
  constructor
  · intro h
    cases hd : s.disabled with
    | true => exact Or.inl rfl
    | false =>
      right
      by_cases hm : ∃ e ∈ s.noProxy, noProxyMatch u.host (lowerBytes e) = true
      · exact Or.inl hm
      · right
        have hall : ∀ e ∈ s.noProxy, noProxyMatch u.host (lowerBytes e) = false := by
          intro e he
          cases hx : noProxyMatch u.host (lowerBytes e) with
          | false => rfl
          | true => exact absurd ⟨e, he, hx⟩ hm
        by_cases h1 : u.scheme = str "http"
        · left; refine ⟨h1, ?_⟩
          cases hp : s.httpProxy with
          | none => rfl
          | some p =>
            have := (C11_decision s u p).mpr ⟨hd, hall, Or.inl ⟨h1, hp⟩⟩
            rw [h] at this; cases this
        · by_cases h2 : u.scheme = str "https"
          · right; left; refine ⟨h2, ?_⟩
            cases hp : s.httpsProxy with
            | none => rfl
            | some p =>
              have := (C11_decision s u p).mpr ⟨hd, hall, Or.inr ⟨h2, hp⟩⟩
              rw [h] at this; cases this
          · exact Or.inr (Or.inr ⟨h1, h2⟩)
  · intro h
    cases hf : s.forUrl u with
    | none => rfl
    | some p =>
      obtain ⟨hd, hall, hs⟩ := (C11_decision s u p).mp hf
      rcases h with h | ⟨e, he, hm⟩ | ⟨h1, hp⟩ | ⟨h2, hp⟩ | ⟨h1, h2⟩
      · rw [hd] at h; cases h
      · rw [hall e he] at hm; cases hm
      · rcases hs with ⟨_, hq⟩ | ⟨h2, _⟩
        · rw [hp] at hq; cases hq
        · rw [h1] at h2; exact absurd h2 px_http_ne_https
      · rcases hs with ⟨h1, _⟩ | ⟨_, hq⟩
        · rw [h1] at h2; exact absurd h2 px_http_ne_https
        · rw [hp] at hq; cases hq
      · rcases hs with ⟨h, _⟩ | ⟨h, _⟩
        · exact absurd h h1
        · exact absurd h h2

example : ({ httpProxy := some (px_url "http" "p1" 3128), httpsProxy := none,
             disabled := false, noProxy := [] } : ProxySettings).forUrl
    (px_url "ftp" "example.com" 21) = none :=
  (C11_decision_none _ _).mpr (Or.inr (Or.inr (Or.inr (Or.inr ⟨by decide +kernel, by decide +kernel⟩))))

/-! ### (k) `no_proxy` matching -/

theorem C11_match_iff (h e : Bytes) :
    noProxyMatch h e = true ↔ e ≠ [] ∧ (h = e ∨ ∃ pre, h = pre ++ [46] ++ e) :=
  px_match_iff h e

example : noProxyMatch (str "example.com") (str "example.com") = true :=
  (C11_match_iff _ _).mpr ⟨by decide +kernel, Or.inl rfl⟩
example : noProxyMatch (str "a.b.example.com") (str "example.com") = true :=
  (C11_match_iff _ _).mpr ⟨by decide +kernel, Or.inr ⟨str "a.b", by decide +kernel⟩⟩
example : noProxyMatch (str "a.b.example.com") (str "example.com") = true := by decide +kernel

theorem C11_empty_never (h : Bytes) : noProxyMatch h [] = false := px_match_empty h

example : noProxyMatch [] [] = false ∧ noProxyMatch (str "example.com") [] = false ∧
    noProxyMatch (str "example.com.") [] = false := by decide +kernel

/-- The host `x ++ e` against the entry `e`: matched exactly when `x` is empty (equality) or ends
    with a dot (sub-domain). No condition on `e` other than being non-empty is needed. -/
theorem C11_suffix_iff (x e : Bytes) :
    noProxyMatch (x ++ e) e = true ↔ e ≠ [] ∧ (x = [] ∨ x.getLast? = some 46) :=
  px_match_append_iff x e

/-- A host that merely ends with the same letters is not matched. -/
theorem C11_near_miss (x e : Bytes) :
    x ≠ [] → x.getLast? ≠ some 46 → noProxyMatch (x ++ e) e = false := by
  intro hx hl
  cases hm : noProxyMatch (x ++ e) e with
  | false => rfl
  | true =>
    rcases ((C11_suffix_iff x e).mp hm).2 with h | h
    · exact absurd h hx
    · exact absurd h hl

/-- `notexample.com` is not covered by the entry `example.com`. -/
example : noProxyMatch (str "not" ++ str "example.com") (str "example.com") = false :=
  C11_near_miss _ _ (by decide +kernel) (by decide +kernel)
example : noProxyMatch (str "notexample.com") (str "example.com") = false := by decide +kernel
/-- … and `sub.example.com` is. -/
example : noProxyMatch (str "sub." ++ str "example.com") (str "example.com") = true :=
  (C11_suffix_iff _ _).mpr ⟨by decide +kernel, Or.inr (by decide +kernel)⟩

/-! ### (l) `from_env` -/

/-- The scheme-specific variable wins; ALL_PROXY is the fall-back (for http and for https). -/
theorem C11_env_scheme_over_all (parse : Bytes → Option Url) (e : Env) :
    (fromEnv parse e).httpProxy =
      (match getEnvUrl parse (getEnv e.http_proxy e.HTTP_PROXY) with
       | some p => some p
       | none => getEnvUrl parse (getEnv e.all_proxy e.ALL_PROXY)) ∧
    (fromEnv parse e).httpsProxy =
      (match getEnvUrl parse (getEnv e.https_proxy e.HTTPS_PROXY) with
       | some p => some p
       | none => getEnvUrl parse (getEnv e.all_proxy e.ALL_PROXY)) := by
  constructor
  · simp only [fromEnv]
    cases getEnvUrl parse (getEnv e.http_proxy e.HTTP_PROXY) <;> rfl
  · simp only [fromEnv]
    cases getEnvUrl parse (getEnv e.https_proxy e.HTTPS_PROXY) <;> rfl

/-- http_proxy usable and ALL_PROXY set: http uses http_proxy's, https falls back to ALL_PROXY's. -/
example :
    let e := { px_env0 with http_proxy := some (str "http://p1:3128"),
                            ALL_PROXY := some (str "http://p2:3128") }
    (fromEnv px_parse e).httpProxy = px_parse (str "http://p1:3128") ∧
    (fromEnv px_parse e).httpsProxy = px_parse (str "http://p2:3128") := by decide +kernel
/-- http_proxy unusable (a socks URL): ALL_PROXY's value is used for http as well. -/
example :
    let e := { px_env0 with http_proxy := some (str "socks5://p3"),
                            ALL_PROXY := some (str "http://p2:3128") }
    (fromEnv px_parse e).httpProxy = px_parse (str "http://p2:3128") := by decide +kernel

/-- The lower-case name first; the upper-case one only if the lower-case one is unset. -/
theorem C11_env_get (lo up : Option Bytes) :
    getEnv lo up = (match lo with | some v => some v | none => up) := by
  cases lo <;> rfl

/-- If a lower-case variable is set, the value of its upper-case twin is irrelevant: two
    environments that agree on the lower-case variables, and on each upper-case one whose
    lower-case twin is unset, give the same settings. -/
theorem C11_env_lower_over_upper (parse : Bytes → Option Url) (e e' : Env)
    (h1 : e.all_proxy = e'.all_proxy) (h2 : e.http_proxy = e'.http_proxy)
    (h3 : e.https_proxy = e'.https_proxy) (h4 : e.no_proxy = e'.no_proxy)
    (u1 : e.all_proxy = none → e.ALL_PROXY = e'.ALL_PROXY)
    (u2 : e.http_proxy = none → e.HTTP_PROXY = e'.HTTP_PROXY)
    (u3 : e.https_proxy = none → e.HTTPS_PROXY = e'.HTTPS_PROXY)
    (u4 : e.no_proxy = none → e.NO_PROXY = e'.NO_PROXY) :
    fromEnv parse e = fromEnv parse e' :=
  px_fromEnv_congr parse e e' (px_getEnv_congr h1 u1) (px_getEnv_congr h2 u2)
    (px_getEnv_congr h3 u3) (px_getEnv_congr h4 u4)

example (x : Option Bytes) :
    fromEnv px_parse { px_env0 with http_proxy := some (str "http://p1:3128"), HTTP_PROXY := x } =
    fromEnv px_parse { px_env0 with
      http_proxy := some (str "http://p1:3128"), HTTP_PROXY := some (str "http://p2:3128") } :=
  C11_env_lower_over_upper _ _ _ rfl rfl rfl rfl (fun _ => rfl) (fun h => by cases h)
    (fun _ => rfl) (fun _ => rfl)
example : (fromEnv px_parse { px_env0 with
    http_proxy := some (str "http://p1:3128"), HTTP_PROXY := some (str "http://p2:3128") }).httpProxy = px_parse (str "http://p1:3128") := by
  decide +kernel
/-- Also when the lower-case value is unusable: the upper-case one is still ignored. -/
example : (fromEnv px_parse { px_env0 with
    http_proxy := some (str ""), HTTP_PROXY := some (str "http://p2:3128") }).httpProxy = none := by
  decide +kernel

/-- `no_proxy=*`: proxies are disabled, for every URL. -/
theorem C11_env_wildcard (parse : Bytes → Option Url) (e : Env) :
    getEnv e.no_proxy e.NO_PROXY = some (str "*") →
    (fromEnv parse e).disabled = true ∧ ∀ u, (fromEnv parse e).forUrl u = none := by
  intro h
  have h42 : str "*" = [42] := by decide +kernel
  have hd : (fromEnv parse e).disabled = true := by
    simp only [fromEnv, h, h42]; rfl
  exact ⟨hd, fun u => px_forUrl_disabled _ u hd⟩

example : ∀ u, (fromEnv px_parse { px_env0 with
    http_proxy := some (str "http://p1:3128"), NO_PROXY := some (str "*") }).forUrl u = none :=
  (C11_env_wildcard _ _ rfl).2

/-- Any other value: the entries are split on ',', trimmed of blanks and of leading dots, and
    lower-cased; proxies are not disabled. -/
theorem C11_env_entries (parse : Bytes → Option Url) (e : Env) (v : Bytes) :
    getEnv e.no_proxy e.NO_PROXY = some v → v ≠ str "*" →
    (fromEnv parse e).disabled = false ∧
    (fromEnv parse e).noProxy =
      (splitComma v).map (fun s => lowerBytes ((trimWs s).dropWhile (· == 46))) := by
  intro h hv
  have h42 : str "*" = [42] := by decide +kernel
  rw [h42] at hv
  have hb : (v == [42]) = false := by simpa using hv
  constructor
  · simp only [fromEnv, h, Option.getD_some, hb]
  · simp only [fromEnv, h, Option.getD_some, hb, Bool.false_eq_true, if_false]

theorem C11_env_no_entries (parse : Bytes → Option Url) (e : Env) :
    getEnv e.no_proxy e.NO_PROXY = none →
    (fromEnv parse e).disabled = false ∧ (fromEnv parse e).noProxy = [] := by
  intro h
  constructor
  · simp only [fromEnv, h]; rfl
  · simp only [fromEnv, h]; rfl

example : (fromEnv px_parse { px_env0 with no_proxy := some (str " .Example.COM ,,localhost\t, ..a") }).noProxy
    = [str "example.com", [], str "localhost", str "a"] := by
  rw [(C11_env_entries px_parse _ _ rfl (by decide +kernel)).2]
  decide +kernel

/-- A variable's value is used exactly when it is non-blank, parses, and is an http / https URL. -/
theorem C11_env_used_iff (parse : Bytes → Option Url) (v : Option Bytes) (u : Url) :
    getEnvUrl parse v = some u ↔
      ∃ val, v = some val ∧ getEnvUrl.strTrim val ≠ [] ∧ parse val = some u ∧
        (u.scheme = str "http" ∨ u.scheme = str "https") :=
  px_getEnvUrl_iff parse v u

example : getEnvUrl px_parse (some (str "http://p1:3128")) = px_parse (str "http://p1:3128") := by
  decide +kernel

/-- Unset, blank, unparsable or non-http(s) values give no proxy. -/
theorem C11_env_ignored (parse : Bytes → Option Url) (v : Option Bytes) :
    (v = none ∨ (∃ val, v = some val ∧
        (getEnvUrl.strTrim val = [] ∨ parse val = none ∨
          ∃ u, parse val = some u ∧ u.scheme ≠ str "http" ∧ u.scheme ≠ str "https"))) →
    getEnvUrl parse v = none := by
  intro h
  cases hg : getEnvUrl parse v with
  | none => rfl
  | some u =>
    obtain ⟨val, hv, ht, hp, hs⟩ := (C11_env_used_iff parse v u).mp hg
    rcases h with h | ⟨val', hv', h⟩
    · rw [h] at hv; cases hv
    · rw [hv] at hv'; cases hv'
      rcases h with h | h | ⟨w, hw, h1, h2⟩
      · exact absurd h ht
      · rw [h] at hp; cases hp
      · rw [hp] at hw; cases hw
        rcases hs with hs | hs
        · exact absurd hs h1
        · exact absurd hs h2

example : getEnvUrl px_parse (some (str " \t ")) = none :=
  C11_env_ignored _ _ (Or.inr ⟨_, rfl, Or.inl (by decide +kernel)⟩)
example : getEnvUrl px_parse (some (str "::nonsense")) = none :=
  C11_env_ignored _ _ (Or.inr ⟨_, rfl, Or.inr (Or.inl (by decide +kernel))⟩)
example : getEnvUrl px_parse (some (str "socks5://p3")) = none :=
  C11_env_ignored _ _ (Or.inr ⟨_, rfl, Or.inr (Or.inr ⟨px_url "socks5" "p3" 1080,
    by decide +kernel, by decide +kernel, by decide +kernel⟩)⟩)

/-- An empty entry (`no_proxy=""`, `"a,,b"`, `" . "`) never bypasses the proxy: it matches no host,
    and dropping the empty entries changes no decision. -/
theorem C11_env_empty_entry_harmless (s : ProxySettings) (u : Url) :
    (∀ h, noProxyMatch h (lowerBytes []) = false) ∧
    ({ s with noProxy := s.noProxy.filter (fun e => e != []) } : ProxySettings).forUrl u = s.forUrl u :=
  ⟨fun h => px_match_empty h, px_forUrl_filter s u⟩

/-- `no_proxy=""` yields the single entry `""`; every http URL still goes through the proxy. -/
example (host : Bytes) :
    let s := fromEnv px_parse { px_env0 with http_proxy := some (str "http://p1:3128"),
                                             no_proxy := some (str "") }
    s.noProxy = [[]] ∧
    s.forUrl { px_url "http" "" 80 with host := host } = px_parse (str "http://p1:3128") := by
  intro s
  have hnp : s.noProxy = [[]] := by decide +kernel
  refine ⟨hnp, ?_⟩
  rw [← (C11_env_empty_entry_harmless s _).2]
  cases hp : px_parse (str "http://p1:3128") with
  | none => exact absurd hp (by decide +kernel)
  | some p =>
    refine (C11_decision _ _ p).mpr ⟨by decide +kernel, ?_, Or.inl ⟨rfl, ?_⟩⟩
    · intro e he; rw [hnp] at he; simp at he
    · rw [← hp]; decide +kernel

end Atto
