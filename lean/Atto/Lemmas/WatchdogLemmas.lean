/-
  Atto/Lemmas/WatchdogLemmas.lean — reachability, the invariant and the step lemmas for the deadline
  watchdog model (Atto/Model/Watchdog.lean), used by Atto/Props/C13.lean.

  `Step` : one labelled transition (clock advance, peer send — only while the socket is not shut —,
  peer close, a read with a non-empty buffer, dropping the response); `Trace` : a labelled run;
  `Reach s0 s` : some run leads from `s0` to `s`; `Inv` : the invariant of every state reachable
  from `init d rt`.  Note on `WdState.droppedRx`: the model fires atomically (`fireIfDue` goes from
  `waiting` straight to `fired` and sets `shut` in the same step), so no function of the model ever
  produces `droppedRx`; the invariant records `wd ≠ droppedRx`.
-/
import Atto.Model.Watchdog
namespace Atto
namespace Wd

/-- the initial state: watchdog installed and waiting, reader holds its sender -/
def init (d rt : Nat) : St := { now := 0, deadline := d, readTimeout := rt }

/-- labels of the transitions; a read carries its buffer size and what it returned -/
inductive Lbl where
  | adv (t : Nat)
  | send (n : Nat)
  | close
  | read (n : Nat) (o : RdOut)
  | drop
  deriving Repr, DecidableEq

inductive Step : St → Lbl → St → Prop where
  | adv (s : St) (t : Nat) : Step s (.adv t) (advance s t)
  | send (s : St) (n : Nat) : s.shut = false → Step s (.send n) { s with queued := s.queued + n }
  | close (s : St) : Step s .close { s with peerClosed := true }
  | read (s : St) (n : Nat) : 0 < n → Step s (.read n (read s n).1) (read s n).2
  | drop (s : St) : Step s .drop (dropResponse s)

inductive Trace : St → List Lbl → St → Prop where
  | nil (s : St) : Trace s [] s
  | cons {s s1 s2 : St} {a : Lbl} {l : List Lbl} : Step s a s1 → Trace s1 l s2 → Trace s (a :: l) s2

/-- `s` is reachable from `s0` by some sequence of transitions -/
def Reach (s0 : St) (s : St) : Prop := ∃ l, Trace s0 l s

theorem Trace.append {s s1 s2 : St} {l1 l2 : List Lbl} (h1 : Trace s l1 s1) (h2 : Trace s1 l2 s2) :
    Trace s (l1 ++ l2) s2 := by
  induction h1 with
  | nil _ => exact h2
  | cons st _ ih => exact .cons st (ih h2)

theorem Reach.refl (s : St) : Reach s s := ⟨[], .nil s⟩
theorem Reach.step {s0 s s' : St} {a : Lbl} (h : Reach s0 s) (st : Step s a s') : Reach s0 s' := by
  obtain ⟨l, hl⟩ := h
  exact ⟨l ++ [a], hl.append (.cons st (.nil _))⟩
theorem Reach.trans {s0 s s' : St} (h : Reach s0 s) (h' : Reach s s') : Reach s0 s' := by
  obtain ⟨l, hl⟩ := h; obtain ⟨l', hl'⟩ := h'
  exact ⟨l ++ l', hl.append hl'⟩

/-- induction over the event sequence -/
theorem Trace.preserves {P : St → Prop} (hstep : ∀ s a s', P s → Step s a s' → P s')
    {s s' : St} {l : List Lbl} (h : Trace s l s') : P s → P s' := by
  induction h with
  | nil _ => exact id
  | cons st _ ih => exact fun hp => ih (hstep _ _ _ hp st)

theorem Reach.preserves {P : St → Prop} (hstep : ∀ s a s', P s → Step s a s' → P s')
    {s s' : St} (h : Reach s s') : P s → P s' := by
  obtain ⟨l, hl⟩ := h; exact hl.preserves hstep

/-! ### the invariant -/

structure Inv (s : St) : Prop where
  noDropped : s.wd ≠ .droppedRx
  fired_shut : s.wd = .fired → s.shut = true
  shut_fired : s.shut = true → s.wd = .fired
  fired_due : s.wd = .fired → s.deadline ≤ s.now
  exited_noTx : s.wd = .exited → s.hasTx = false
  waiting_tx : s.wd = .waiting → s.hasTx = true

theorem wd_inv_init (d rt : Nat) : Inv (init d rt) := by
  constructor <;> simp [init]

theorem wd_inv_fireIfDue {s : St} (h : Inv s) : Inv (fireIfDue s) := by
  obtain ⟨h1, h2, h3, h4, h5, h6⟩ := h
  unfold fireIfDue
  split
  · next hc => constructor <;> simp_all
  · exact ⟨h1, h2, h3, h4, h5, h6⟩

theorem wd_inv_advance {s : St} (h : Inv s) (t : Nat) : Inv (advance s t) := by
  apply wd_inv_fireIfDue
  obtain ⟨h1, h2, h3, h4, h5, h6⟩ := h
  exact ⟨h1, h2, h3, fun hf => by have := h4 hf; simp only; omega, h5, h6⟩

theorem wd_inv_ping {s : St} (h : Inv s) : Inv (ping s).2 := by
  obtain ⟨h1, h2, h3, h4, h5, h6⟩ := h
  unfold ping
  split
  · exact ⟨h1, h2, h3, h4, h5, h6⟩
  · split
    · next hw => constructor <;> simp_all
    all_goals exact ⟨h1, h2, h3, h4, h5, h6⟩

theorem wd_inv_read {s : St} (h : Inv s) (n : Nat) : Inv (read s n).2 := by
  have h' := wd_inv_fireIfDue h
  unfold read
  generalize fireIfDue s = s1 at h' ⊢
  simp only
  split
  · obtain ⟨h1, h2, h3, h4, h5, h6⟩ := h'; exact ⟨h1, h2, h3, h4, h5, h6⟩
  split
  · obtain ⟨h1, h2, h3, h4, h5, h6⟩ := h'; exact ⟨h1, h2, h3, h4, h5, h6⟩
  split
  · split
    · have hp := wd_inv_ping h'
      split <;> next hq => rw [hq] at hp; exact hp
    · exact h'
  · split
    · exact wd_inv_advance h' _
    · exact wd_inv_advance h' _

theorem wd_inv_drop {s : St} (h : Inv s) : Inv (dropResponse s) := by
  obtain ⟨h1, h2, h3, h4, h5, h6⟩ := h
  unfold dropResponse
  constructor <;> simp only <;> split <;> simp_all

theorem wd_inv_step {s s' : St} {a : Lbl} (h : Inv s) (st : Step s a s') : Inv s' := by
  cases st with
  | adv t => exact wd_inv_advance h t
  | send n hs => obtain ⟨h1, h2, h3, h4, h5, h6⟩ := h; exact ⟨h1, h2, h3, h4, h5, h6⟩
  | close => obtain ⟨h1, h2, h3, h4, h5, h6⟩ := h; exact ⟨h1, h2, h3, h4, h5, h6⟩
  | read n hn => exact wd_inv_read h n
  | drop => exact wd_inv_drop h

theorem wd_inv_reach {s s' : St} (h : Inv s) (r : Reach s s') : Inv s' :=
  r.preserves (fun _ _ _ hp st => wd_inv_step hp st) h

theorem wd_inv_of_init {d rt : Nat} {s : St} (r : Reach (init d rt) s) : Inv s :=
  wd_inv_reach (wd_inv_init d rt) r

/-! ### field lemmas -/

@[simp] theorem wd_fire_now (s : St) : (fireIfDue s).now = s.now := by unfold fireIfDue; split <;> rfl
@[simp] theorem wd_fire_deadline (s : St) : (fireIfDue s).deadline = s.deadline := by
  unfold fireIfDue; split <;> rfl
@[simp] theorem wd_fire_readTimeout (s : St) : (fireIfDue s).readTimeout = s.readTimeout := by
  unfold fireIfDue; split <;> rfl
@[simp] theorem wd_fire_hasTx (s : St) : (fireIfDue s).hasTx = s.hasTx := by unfold fireIfDue; split <;> rfl
@[simp] theorem wd_fire_queued (s : St) : (fireIfDue s).queued = s.queued := by unfold fireIfDue; split <;> rfl
@[simp] theorem wd_fire_buffered (s : St) : (fireIfDue s).buffered = s.buffered := by
  unfold fireIfDue; split <;> rfl
@[simp] theorem wd_fire_bufCap (s : St) : (fireIfDue s).bufCap = s.bufCap := by unfold fireIfDue; split <;> rfl
@[simp] theorem wd_fire_peerClosed (s : St) : (fireIfDue s).peerClosed = s.peerClosed := by
  unfold fireIfDue; split <;> rfl

theorem wd_fire_of_not_waiting {s : St} (h : s.wd ≠ .waiting) : fireIfDue s = s := by
  unfold fireIfDue; simp [h]
theorem wd_fire_of_early {s : St} (h : s.now < s.deadline) : fireIfDue s = s := by
  unfold fireIfDue; rw [if_neg]; intro ⟨_, h2⟩; omega
/-- after `fireIfDue` a waiting watchdog has its deadline in the future -/
theorem wd_fire_waiting {s : St} (h : (fireIfDue s).wd = .waiting) : s.now < s.deadline ∧ fireIfDue s = s := by
  unfold fireIfDue at h ⊢
  split at h
  · cases h
  · next hc =>
    rw [if_neg hc]
    exact ⟨Nat.lt_of_not_le (fun h2 => hc ⟨h, h2⟩), rfl⟩
theorem wd_fire_shut_mono {s : St} (h : s.shut = true) : (fireIfDue s).shut = true := by
  unfold fireIfDue; split <;> simp [h]
theorem wd_fire_idem (s : St) : fireIfDue (fireIfDue s) = fireIfDue s := by
  unfold fireIfDue; split <;> simp_all

@[simp] theorem wd_adv_now (s : St) (t : Nat) : (advance s t).now = max s.now t := by simp [advance]
@[simp] theorem wd_adv_deadline (s : St) (t : Nat) : (advance s t).deadline = s.deadline := by simp [advance]
@[simp] theorem wd_adv_readTimeout (s : St) (t : Nat) : (advance s t).readTimeout = s.readTimeout := by
  simp [advance]
@[simp] theorem wd_adv_hasTx (s : St) (t : Nat) : (advance s t).hasTx = s.hasTx := by simp [advance]
@[simp] theorem wd_adv_queued (s : St) (t : Nat) : (advance s t).queued = s.queued := by simp [advance]
@[simp] theorem wd_adv_buffered (s : St) (t : Nat) : (advance s t).buffered = s.buffered := by simp [advance]
@[simp] theorem wd_adv_bufCap (s : St) (t : Nat) : (advance s t).bufCap = s.bufCap := by simp [advance]
@[simp] theorem wd_adv_peerClosed (s : St) (t : Nat) : (advance s t).peerClosed = s.peerClosed := by
  simp [advance]
theorem wd_adv_shut_mono {s : St} (t : Nat) (h : s.shut = true) : (advance s t).shut = true := by
  unfold advance; exact wd_fire_shut_mono h
theorem wd_adv_of_not_waiting {s : St} (t : Nat) (h : s.wd ≠ .waiting) :
    advance s t = { s with now := max s.now t } := by
  unfold advance; exact wd_fire_of_not_waiting h

/-! ### `ping` and `read`, by cases -/

theorem wd_ping_false {s s' : St} (h : ping s = (false, s')) :
    s' = s ∧ s.hasTx = true ∧ s.wd ≠ .waiting := by
  unfold ping at h
  split at h
  · cases h
  · next hx =>
    split at h
    · cases h
    all_goals (next hw => injection h with _ h2; exact ⟨h2.symm, by simpa using hx, by simp [hw]⟩)

theorem wd_ping_true {s s' : St} (h : ping s = (true, s')) :
    (s.hasTx = false ∧ s' = s) ∨
    (s.hasTx = true ∧ s.wd = .waiting ∧ s' = { s with wd := .exited, hasTx := false }) := by
  unfold ping at h
  split at h
  · next hx => injection h with _ h2; exact .inl ⟨by simpa using hx, h2.symm⟩
  · next hx =>
    split at h
    · next hw => injection h with _ h2; exact .inr ⟨by simpa using hx, hw, h2.symm⟩
    all_goals cases h

/-- The seven ways a `read` can go, in terms of `s1 = fireIfDue s`. -/
inductive ReadCase (s1 : St) (n : Nat) : RdOut × St → Prop where
  | buffered : 0 < s1.buffered →
      ReadCase s1 n (.data (min n s1.buffered), { s1 with buffered := s1.buffered - min n s1.buffered })
  | socket : s1.buffered = 0 → 0 < s1.queued →
      ReadCase s1 n (.data (min n (min (max n s1.bufCap) s1.queued)),
        { s1 with queued := s1.queued - min (max n s1.bufCap) s1.queued,
                  buffered := if n < s1.bufCap then min (max n s1.bufCap) s1.queued
                    - min n (min (max n s1.bufCap) s1.queued) else 0 })
  | eofReleased : s1.buffered = 0 → s1.queued = 0 → (s1.peerClosed = true ∨ s1.shut = true) →
      s1.hasTx = false → ReadCase s1 n (.eof, s1)
  | eofGenuine : s1.buffered = 0 → s1.queued = 0 → (s1.peerClosed = true ∨ s1.shut = true) →
      s1.hasTx = true → s1.wd = .waiting → ReadCase s1 n (.eof, { s1 with wd := .exited, hasTx := false })
  | pingFailed : s1.buffered = 0 → s1.queued = 0 → (s1.peerClosed = true ∨ s1.shut = true) →
      s1.hasTx = true → s1.wd ≠ .waiting → ReadCase s1 n (.timedOut, s1)
  | woken : s1.buffered = 0 → s1.queued = 0 → s1.peerClosed = false → s1.shut = false →
      s1.wd = .waiting → s1.hasTx = true → s1.deadline ≤ s1.now + s1.readTimeout →
      ReadCase s1 n (.timedOut, advance s1 s1.deadline)
  | rcvTimeout : s1.buffered = 0 → s1.queued = 0 → s1.peerClosed = false → s1.shut = false →
      ¬ (s1.wd = .waiting ∧ s1.hasTx = true ∧ s1.deadline ≤ s1.now + s1.readTimeout) →
      ReadCase s1 n (.wouldBlock, advance s1 (s1.now + s1.readTimeout))

theorem wd_read_cases (s : St) (n : Nat) : ReadCase (fireIfDue s) n (read s n) := by
  unfold read
  generalize fireIfDue s = s1
  simp only
  split
  · next h => exact .buffered h
  next hb =>
  split
  · next h => exact .socket (by omega) h
  next hq =>
  split
  · next hc =>
    have hc' : s1.peerClosed = true ∨ s1.shut = true := hc
    split
    · next hx =>
      split
      · next hp =>
        rcases wd_ping_true hp with ⟨h1, _⟩ | ⟨_, h2, h3⟩
        · rw [h1] at hx; cases hx
        · rw [h3]; exact .eofGenuine (by omega) (by omega) hc' hx h2
      · next hp =>
        obtain ⟨h1, _, h3⟩ := wd_ping_false hp
        rw [h1]; exact .pingFailed (by omega) (by omega) hc' hx h3
    · next hx => exact .eofReleased (by omega) (by omega) hc' (by simpa using hx)
  · next hc =>
    have h1 : s1.peerClosed = false := by
      cases h : s1.peerClosed with | false => rfl | true => exact absurd (.inl h) hc
    have h2 : s1.shut = false := by
      cases h : s1.shut with | false => rfl | true => exact absurd (.inr h) hc
    split
    · next hw => exact .woken (by omega) (by omega) h1 h2 hw.1 hw.2.1 hw.2.2
    · next hw => exact .rcvTimeout (by omega) (by omega) h1 h2 hw

/-! ### (a) only real timeouts -/

theorem wd_timedOut_sound {s s' : St} {n : Nat} (h : Inv s) (hr : read s n = (.timedOut, s')) :
    s'.deadline ≤ s'.now ∧ s'.wd = .fired ∧ s'.shut = true := by
  have hc := wd_read_cases s n
  rw [hr] at hc
  have hi := wd_inv_fireIfDue h
  generalize fireIfDue s = s1 at hc hi
  cases hc with
  | pingFailed _ _ _ hx hw =>
    have hf : s'.wd = .fired := by
      cases hwd : s'.wd with
      | waiting => exact absurd hwd hw
      | droppedRx => exact absurd hwd hi.noDropped
      | exited => have := hi.exited_noTx hwd; rw [hx] at this; cases this
      | fired => rfl
    exact ⟨hi.fired_due hf, hf, hi.fired_shut hf⟩
  | woken _ _ _ _ hw _ _ =>
    have hd : (advance s1 s1.deadline).wd = .fired ∧ (advance s1 s1.deadline).shut = true := by
      unfold advance fireIfDue
      rw [if_pos ⟨hw, by simp only; omega⟩]; exact ⟨rfl, rfl⟩
    refine ⟨?_, hd.1, hd.2⟩
    simp only [wd_adv_now, wd_adv_deadline]; omega

/-- the converse reading for `eof`: with the sender still held, `Ok(0)` is passed on only if the
    peer closed, the socket is not shut, and the deadline has not been reached; the watchdog is told
    to stand down -/
theorem wd_eof_genuine {s s' : St} {n : Nat} (h : Inv s) (hx : s.hasTx = true)
    (hr : read s n = (.eof, s')) :
    s.peerClosed = true ∧ s.shut = false ∧ s.now < s.deadline ∧ s'.wd = .exited ∧ s'.shut = false ∧
      s'.hasTx = false ∧ s'.now = s.now := by
  have hc := wd_read_cases s n
  rw [hr] at hc
  have hi := wd_inv_fireIfDue h
  generalize hs1 : fireIfDue s = s1 at hc hi
  cases hc with
  | eofReleased _ _ _ hx' => rw [← hs1, wd_fire_hasTx, hx] at hx'; cases hx'
  | eofGenuine _ _ hcl _ hw =>
    obtain ⟨hlt, hid⟩ := wd_fire_waiting (s := s) (by rw [hs1]; exact hw)
    rw [hs1] at hid; subst hid
    have hns : s1.shut = false := by
      cases hsh : s1.shut with
      | false => rfl
      | true => have := hi.shut_fired hsh; rw [hw] at this; cases this
    have hpc : s1.peerClosed = true := by
      rcases hcl with h1 | h1
      · exact h1
      · rw [hns] at h1; cases h1
    exact ⟨hpc, hns, hlt, rfl, hns, rfl, rfl⟩

/-! ### (b) after end of stream -/

/-- the stream has ended and the reader no longer holds its sender -/
def Done (s : St) : Prop :=
  s.hasTx = false ∧ s.buffered = 0 ∧ s.queued = 0 ∧ (s.peerClosed = true ∨ s.shut = true)

theorem wd_done_of_eof {s s' : St} {n : Nat} (hr : read s n = (.eof, s')) : Done s' := by
  have hc := wd_read_cases s n
  rw [hr] at hc
  generalize fireIfDue s = s1 at hc
  cases hc with
  | eofReleased h1 h2 h3 h4 => exact ⟨h4, h1, h2, h3⟩
  | eofGenuine h1 h2 h3 _ _ => exact ⟨rfl, h1, h2, h3⟩

theorem wd_done_fire {s : St} (h : Done s) : Done (fireIfDue s) := by
  obtain ⟨h1, h2, h3, h4⟩ := h
  refine ⟨by simpa using h1, by simpa using h2, by simpa using h3, ?_⟩
  rcases h4 with h4 | h4
  · exact .inl (by simpa using h4)
  · exact .inr (wd_fire_shut_mono h4)

theorem wd_done_advance {s : St} (h : Done s) (t : Nat) : Done (advance s t) := by
  unfold advance
  apply wd_done_fire
  obtain ⟨h1, h2, h3, h4⟩ := h
  exact ⟨h1, h2, h3, h4⟩

theorem wd_done_read {s : St} (h : Done s) (n : Nat) : read s n = (.eof, fireIfDue s) := by
  have hc := wd_read_cases s n
  obtain ⟨h1, h2, h3, h4⟩ := wd_done_fire h
  generalize read s n = r at hc
  generalize fireIfDue s = s1 at *
  cases hc with
  | buffered h => omega
  | socket _ h => omega
  | eofReleased => rfl
  | eofGenuine _ _ _ hx => rw [h1] at hx; cases hx
  | pingFailed _ _ _ hx => rw [h1] at hx; cases hx
  | woken _ _ hp hs =>
    rcases h4 with h4 | h4
    · rw [hp] at h4; cases h4
    · rw [hs] at h4; cases h4
  | rcvTimeout _ _ hp hs =>
    rcases h4 with h4 | h4
    · rw [hp] at h4; cases h4
    · rw [hs] at h4; cases h4

theorem wd_done_drop {s : St} (h : Done s) : Done (dropResponse s) := by
  obtain ⟨h1, h2, h3, h4⟩ := h
  exact ⟨rfl, h2, h3, h4⟩

/-- number of read events of a scenario -/
def wd_readCount : List (Nat × Ev) → Nat
  | [] => 0
  | (_, .read _) :: rest => wd_readCount rest + 1
  | _ :: rest => wd_readCount rest

def wd_isSend : Ev → Bool
  | .send _ => true
  | _ => false

theorem wd_done_run {s : St} (h : Done s) (evs : List (Nat × Ev))
    (hns : ∀ e ∈ evs, wd_isSend e.2 = false) :
    run s evs = List.replicate (wd_readCount evs) .eof := by
  induction evs generalizing s with
  | nil => rfl
  | cons e rest ih =>
    obtain ⟨t, ev⟩ := e
    have hrest : ∀ e ∈ rest, wd_isSend e.2 = false := fun e he => hns e (List.mem_cons_of_mem _ he)
    have ha := wd_done_advance h t
    cases ev with
    | send k => have := hns (t, .send k) (List.mem_cons_self ..); simp [wd_isSend] at this
    | close =>
      simp only [run, wd_readCount]
      exact ih (s := { advance s t with peerClosed := true })
        ⟨ha.1, ha.2.1, ha.2.2.1, .inl rfl⟩ hrest
    | read k =>
      simp only [run, wd_readCount, wd_done_read ha k, List.replicate_succ]
      rw [ih (wd_done_fire ha) hrest]
    | drop =>
      simp only [run, wd_readCount]
      exact ih (wd_done_drop ha) hrest

/-! ### (c) a cut body is not a complete body -/

theorem wd_cut {s : St} (h : Inv s) (n : Nat) (hs : s.shut = true)
    (hq : s.queued = 0) (hb : s.buffered = 0) (hx : s.hasTx = true) : read s n = (.timedOut, s) := by
  have hf : s.wd = .fired := h.shut_fired hs
  have hfi : fireIfDue s = s := wd_fire_of_not_waiting (by rw [hf]; simp)
  have hc := wd_read_cases s n
  rw [hfi] at hc
  generalize read s n = r at hc
  cases hc with
  | buffered h => omega
  | socket _ h => omega
  | eofReleased _ _ _ hx' => rw [hx] at hx'; cases hx'
  | eofGenuine _ _ _ _ hw => rw [hf] at hw; cases hw
  | pingFailed => rfl
  | woken _ _ _ hs' => rw [hs] at hs'; cases hs'
  | rcvTimeout _ _ _ hs' => rw [hs] at hs'; cases hs'

/-- a read that does not return `eof` leaves the sender where it is -/
theorem wd_read_hasTx {s : St} {n : Nat} (hx : s.hasTx = true) (hne : (read s n).1 ≠ .eof) :
    (read s n).2.hasTx = true := by
  have hc := wd_read_cases s n
  have hx1 : (fireIfDue s).hasTx = true := by simpa using hx
  generalize read s n = r at hc hne
  generalize fireIfDue s = s1 at hc hx1
  cases hc with
  | buffered => exact hx1
  | socket => exact hx1
  | eofReleased => exact absurd rfl hne
  | eofGenuine => exact absurd rfl hne
  | pingFailed => exact hx1
  | woken => simpa using hx1
  | rcvTimeout => simpa using hx1

theorem wd_step_hasTx {s s' : St} {a : Lbl} (st : Step s a s') (hx : s.hasTx = true)
    (hd : a ≠ .drop) (he : ∀ n, a ≠ .read n .eof) : s'.hasTx = true := by
  cases st with
  | adv t => simpa using hx
  | send n _ => exact hx
  | close => exact hx
  | read n _ => exact wd_read_hasTx hx (fun h => he n (by rw [h]))
  | drop => exact absurd rfl hd

theorem wd_trace_hasTx {s s' : St} {l : List Lbl} (tr : Trace s l s') (hx : s.hasTx = true)
    (hd : Lbl.drop ∉ l) (he : ∀ n, Lbl.read n .eof ∉ l) : s'.hasTx = true := by
  induction tr with
  | nil _ => exact hx
  | cons st _ ih =>
    exact ih (wd_step_hasTx st hx (fun h => hd (by rw [h]; exact List.mem_cons_self ..))
        (fun n h => he n (by rw [h]; exact List.mem_cons_self ..)))
      (fun h => hd (List.mem_cons_of_mem _ h)) (fun n h => he n (List.mem_cons_of_mem _ h))

/-! ### (d) data first, nothing fabricated -/

def wd_bytes : RdOut → Nat
  | .data k => k
  | _ => 0

/-- bytes are conserved by a read: what it returns is what left the two buffers -/
theorem wd_read_conserve (s : St) (n : Nat) :
    (read s n).2.buffered + (read s n).2.queued + wd_bytes (read s n).1 = s.buffered + s.queued := by
  have hc := wd_read_cases s n
  have e1 : (fireIfDue s).buffered = s.buffered := by simp
  have e2 : (fireIfDue s).queued = s.queued := by simp
  generalize read s n = r at hc
  generalize fireIfDue s = s1 at hc e1 e2
  cases hc with
  | buffered h => simp only [wd_bytes]; omega
  | socket h1 h2 => simp only [wd_bytes]; split <;> omega
  | eofReleased => simp only [wd_bytes]; omega
  | eofGenuine => simp only [wd_bytes]; omega
  | pingFailed => simp only [wd_bytes]; omega
  | woken => simp only [wd_bytes, wd_adv_buffered, wd_adv_queued]; omega
  | rcvTimeout => simp only [wd_bytes, wd_adv_buffered, wd_adv_queued]; omega

theorem wd_data_first (s : St) (n : Nat) (hn : 0 < n) (hd : 0 < s.buffered + s.queued) :
    ∃ k, 0 < k ∧ k ≤ n ∧ (read s n).1 = .data k := by
  have hc := wd_read_cases s n
  have e1 : (fireIfDue s).buffered = s.buffered := by simp
  have e2 : (fireIfDue s).queued = s.queued := by simp
  generalize read s n = r at hc
  generalize fireIfDue s = s1 at hc e1 e2
  cases hc with
  | buffered h => exact ⟨_, by omega, by omega, rfl⟩
  | socket h1 h2 => exact ⟨_, by omega, by omega, rfl⟩
  | eofReleased => omega
  | eofGenuine => omega
  | pingFailed => omega
  | woken => omega
  | rcvTimeout => omega

def wd_delivered : List RdOut → Nat
  | [] => 0
  | o :: os => wd_bytes o + wd_delivered os

def wd_sent : List (Nat × Ev) → Nat
  | [] => 0
  | (_, .send n) :: rest => n + wd_sent rest
  | _ :: rest => wd_sent rest

theorem wd_delivered_le (s : St) (evs : List (Nat × Ev)) :
    wd_delivered (run s evs) ≤ s.buffered + s.queued + wd_sent evs := by
  induction evs generalizing s with
  | nil => simp [run, wd_delivered]
  | cons e rest ih =>
    obtain ⟨t, ev⟩ := e
    have e1 : (advance s t).buffered = s.buffered := by simp
    have e2 : (advance s t).queued = s.queued := by simp
    cases ev with
    | send k =>
      simp only [run, wd_sent]
      split
      · have := ih (advance s t); omega
      · have := ih { advance s t with queued := (advance s t).queued + k }
        simp only at this; omega
    | close =>
      simp only [run, wd_sent]
      have := ih { advance s t with peerClosed := true }
      simp only at this; omega
    | read k =>
      simp only [run, wd_sent, wd_delivered]
      have := ih (read (advance s t) k).2
      have := wd_read_conserve (advance s t) k
      omega
    | drop =>
      simp only [run, wd_sent]
      have := ih (dropResponse (advance s t))
      have e3 : (dropResponse (advance s t)).buffered = (advance s t).buffered := rfl
      have e4 : (dropResponse (advance s t)).queued = (advance s t).queued := rfl
      omega

/-! ### (e) release -/

theorem wd_drop_release (s : St) : (dropResponse s).hasTx = false ∧ (dropResponse s).wd ≠ .waiting := by
  refine ⟨rfl, ?_⟩
  simp only [dropResponse]
  split
  · simp
  · assumption

theorem wd_drop_exited {s : St} (h : Inv s) (hs : s.shut = false) :
    (dropResponse s).wd = .exited ∧ (dropResponse s).shut = false := by
  refine ⟨?_, hs⟩
  simp only [dropResponse]
  split
  · rfl
  · next hw =>
    cases hwd : s.wd with
    | waiting => exact absurd hwd hw
    | droppedRx => exact absurd hwd h.noDropped
    | exited => rfl
    | fired => have := h.fired_shut hwd; rw [hs] at this; cases this

theorem wd_exited_read {s : St} (n : Nat) (h : s.wd = .exited) :
    (read s n).2.wd = .exited ∧ (read s n).2.shut = s.shut := by
  have hnw : s.wd ≠ .waiting := by rw [h]; simp
  have hfi : fireIfDue s = s := wd_fire_of_not_waiting hnw
  have hc := wd_read_cases s n
  rw [hfi] at hc
  generalize read s n = r at hc
  cases hc with
  | buffered => exact ⟨h, rfl⟩
  | socket => exact ⟨h, rfl⟩
  | eofReleased => exact ⟨h, rfl⟩
  | eofGenuine _ _ _ _ hw => exact absurd hw hnw
  | pingFailed => exact ⟨h, rfl⟩
  | woken _ _ _ _ hw => exact absurd hw hnw
  | rcvTimeout => rw [wd_adv_of_not_waiting _ hnw]; exact ⟨h, rfl⟩

theorem wd_exited_step {s s' : St} {a : Lbl} (st : Step s a s') (h : s.wd = .exited) :
    s'.wd = .exited ∧ s'.shut = s.shut := by
  have hnw : s.wd ≠ .waiting := by rw [h]; simp
  cases st with
  | adv t => rw [wd_adv_of_not_waiting _ hnw]; exact ⟨h, rfl⟩
  | send n _ => exact ⟨h, rfl⟩
  | close => exact ⟨h, rfl⟩
  | read n _ => exact wd_exited_read n h
  | drop => simp only [dropResponse]; rw [if_neg hnw]; exact ⟨h, trivial⟩

theorem wd_exited_reach {s s' : St} (r : Reach s s') (h : s.wd = .exited) :
    s'.wd = .exited ∧ s'.shut = s.shut := by
  have := r.preserves (P := fun x => x.wd = .exited ∧ x.shut = s.shut)
    (fun x a x' hp st => by
      obtain ⟨h1, h2⟩ := wd_exited_step st hp.1
      exact ⟨h1, h2.trans hp.2⟩) ⟨h, rfl⟩
  exact this

/-! ### (f) how long a read can take -/

theorem wd_read_time (s : St) (n : Nat) :
    s.now ≤ (read s n).2.now ∧ (read s n).2.now ≤ s.now + s.readTimeout ∧
    (s.wd = .waiting → s.hasTx = true → (read s n).2.now ≤ max s.now s.deadline) := by
  have hc := wd_read_cases s n
  have e1 : (fireIfDue s).now = s.now := by simp
  have e2 : (fireIfDue s).deadline = s.deadline := by simp
  have e3 : (fireIfDue s).readTimeout = s.readTimeout := by simp
  have e4 : (fireIfDue s).hasTx = s.hasTx := by simp
  have e5 : (fireIfDue s).wd = .waiting ∨ (fireIfDue s).shut = true ∨ s.wd ≠ .waiting := by
    unfold fireIfDue
    split
    · exact .inr (.inl rfl)
    · cases hw : s.wd <;> simp
  generalize read s n = r at hc
  generalize fireIfDue s = s1 at hc e1 e2 e3 e4 e5
  cases hc with
  | buffered => simp only; omega
  | socket => simp only; omega
  | eofReleased => simp only; omega
  | eofGenuine => simp only; omega
  | pingFailed => simp only; omega
  | woken => simp only [wd_adv_now]; omega
  | rcvTimeout _ _ _ hs hn =>
    simp only [wd_adv_now]
    refine ⟨by omega, by omega, fun hw hx => ?_⟩
    rcases e5 with h | h | h
    · have : ¬ s1.deadline ≤ s1.now + s1.readTimeout := fun hd => hn ⟨h, by rw [e4]; exact hx, hd⟩
      omega
    · rw [hs] at h; cases h
    · exact absurd hw h

/-- at or after the deadline, with the response alive: the read returns at once, with data or with
    `TimedOut` -/
theorem wd_read_immediate {s : St} (h : Inv s) (n : Nat) (hx : s.hasTx = true)
    (hd : s.deadline ≤ s.now) :
    (read s n).2.now = s.now ∧ ((∃ k, (read s n).1 = .data k) ∨ (read s n).1 = .timedOut) := by
  have hc := wd_read_cases s n
  have hi := wd_inv_fireIfDue h
  have e1 : (fireIfDue s).now = s.now := by simp
  have e4 : (fireIfDue s).hasTx = true := by simpa using hx
  have e5 : (fireIfDue s).wd = .fired := by
    unfold fireIfDue
    split
    · rfl
    · next hn =>
      cases hw : s.wd with
      | waiting => exact absurd ⟨hw, hd⟩ hn
      | droppedRx => exact absurd hw h.noDropped
      | exited => have := h.exited_noTx hw; rw [hx] at this; cases this
      | fired => rfl
  generalize read s n = r at hc
  generalize fireIfDue s = s1 at hc hi e1 e4 e5
  have hsh := hi.fired_shut e5
  cases hc with
  | buffered => exact ⟨e1, .inl ⟨_, rfl⟩⟩
  | socket => exact ⟨e1, .inl ⟨_, rfl⟩⟩
  | eofReleased _ _ _ hx' => rw [e4] at hx'; cases hx'
  | eofGenuine _ _ _ _ hw => rw [e5] at hw; cases hw
  | pingFailed => exact ⟨e1, .inr rfl⟩
  | woken _ _ _ hs => rw [hsh] at hs; cases hs
  | rcvTimeout _ _ _ hs => rw [hsh] at hs; cases hs

/-- once the socket is shut (possibly by the firing that this very read observes) no read blocks -/
theorem wd_read_shut_immediate {s : St} (n : Nat) (h : (fireIfDue s).shut = true) :
    (read s n).2.now = s.now ∧ (read s n).1 ≠ .wouldBlock := by
  have hc := wd_read_cases s n
  have e1 : (fireIfDue s).now = s.now := by simp
  generalize read s n = r at hc
  generalize fireIfDue s = s1 at hc e1 h
  cases hc with
  | buffered => exact ⟨e1, by simp⟩
  | socket => exact ⟨e1, by simp⟩
  | eofReleased => exact ⟨e1, by simp⟩
  | eofGenuine => exact ⟨e1, by simp⟩
  | pingFailed => exact ⟨e1, by simp⟩
  | woken _ _ _ hs => rw [h] at hs; cases hs
  | rcvTimeout _ _ _ hs => rw [h] at hs; cases hs

theorem wd_fire_due_shut {s : St} (h : Inv s) (hd : s.deadline ≤ s.now)
    (hw : s.wd = .waiting ∨ s.wd = .fired) : (fireIfDue s).shut = true := by
  rcases hw with hw | hw
  · unfold fireIfDue; rw [if_pos ⟨hw, hd⟩]
  · exact wd_fire_shut_mono (h.fired_shut hw)

/-- once the stream is done a read takes no time -/
theorem wd_done_read_now {s : St} (h : Done s) (n : Nat) : (read s n).2.now = s.now := by
  rw [wd_done_read h n]; simp

theorem wd_read_deadline (s : St) (n : Nat) : (read s n).2.deadline = s.deadline := by
  have hc := wd_read_cases s n
  have e2 : (fireIfDue s).deadline = s.deadline := by simp
  generalize read s n = r at hc
  generalize fireIfDue s = s1 at hc e2
  cases hc <;> simp only [wd_adv_deadline] <;> omega

/-- the loop invariant of a caller that only reads: the response is alive or the stream is done,
    and the clock has not passed `B` -/
def ReadsInv (B : Nat) (x : St) : Prop :=
  Inv x ∧ (x.hasTx = true ∨ Done x) ∧ x.now ≤ B ∧ x.deadline ≤ B

theorem wd_readsInv_read {B : Nat} {x : St} (h : ReadsInv B x) (n : Nat) : ReadsInv B (read x n).2 := by
  obtain ⟨hi, hor, hb, hdl⟩ := h
  refine ⟨wd_inv_read hi n, ?_, ?_, by rw [wd_read_deadline]; exact hdl⟩
  · rcases hor with hx0 | hdone
    · cases hout : (read x n).1 with
      | eof =>
        have : read x n = (.eof, (read x n).2) := by rw [← hout]
        exact .inr (wd_done_of_eof this)
      | data k => exact .inl (wd_read_hasTx hx0 (by rw [hout]; simp))
      | timedOut => exact .inl (wd_read_hasTx hx0 (by rw [hout]; simp))
      | wouldBlock => exact .inl (wd_read_hasTx hx0 (by rw [hout]; simp))
    · rw [wd_done_read hdone n]; exact .inr (wd_done_fire hdone)
  · rcases hor with hx0 | hdone
    · have ht := wd_read_time x n
      cases hw : x.wd with
      | waiting => have := ht.2.2 hw hx0; omega
      | droppedRx => exact absurd hw hi.noDropped
      | exited => have := hi.exited_noTx hw; rw [hx0] at this; cases this
      | fired =>
        have := (wd_read_immediate hi n hx0 (hi.fired_due hw)).1
        omega
    · rw [wd_done_read_now hdone n]; exact hb

/-- a caller doing nothing but reads is never kept past `max now deadline` while the response is
    alive (or ended by a genuine end of stream) -/
theorem wd_reads_bounded {s s' : St} {l : List Lbl} (h : Inv s) (hx : s.hasTx = true)
    (tr : Trace s l s') (hl : ∀ a ∈ l, ∃ n o, a = .read n o) : s'.now ≤ max s.now s.deadline := by
  have key : ∀ {x x' : St} {l : List Lbl}, Trace x l x' → (∀ a ∈ l, ∃ n o, a = .read n o) →
      ReadsInv (max s.now s.deadline) x → ReadsInv (max s.now s.deadline) x' := by
    intro x x' l tr
    induction tr with
    | nil _ => exact fun _ hp => hp
    | cons st _ ih =>
      intro hl hp
      obtain ⟨n, o, ha⟩ := hl _ (List.mem_cons_self ..)
      subst ha
      cases st with
      | read n hn => exact ih (fun a ha => hl a (List.mem_cons_of_mem _ ha)) (wd_readsInv_read hp n)
  exact (key tr hl ⟨h, .inl hx, by omega, by omega⟩).2.2.1

/-! ### `run` scenarios are traces -/

/-- the state after a scenario -/
def wd_exec : St → List (Nat × Ev) → St
  | s, [] => s
  | s, (t, ev) :: rest =>
    let s := advance s t
    match ev with
    | .send n => wd_exec (if s.shut then s else { s with queued := s.queued + n }) rest
    | .close => wd_exec { s with peerClosed := true } rest
    | .read n => wd_exec (read s n).2 rest
    | .drop => wd_exec (dropResponse s) rest

/-- reads have a non-empty buffer -/
def wd_readPos : Ev → Bool
  | .read 0 => false
  | _ => true

theorem wd_exec_reach (s : St) (evs : List (Nat × Ev))
    (hn : ∀ e ∈ evs, wd_readPos e.2 = true) : Reach s (wd_exec s evs) := by
  induction evs generalizing s with
  | nil => exact .refl s
  | cons e rest ih =>
    obtain ⟨t, ev⟩ := e
    have hrest : ∀ e ∈ rest, wd_readPos e.2 = true := fun e he => hn e (List.mem_cons_of_mem _ he)
    have ra : Reach s (advance s t) := (Reach.refl s).step (.adv s t)
    cases ev with
    | send k =>
      simp only [wd_exec]
      split
      · exact ra.trans (ih _ hrest)
      · next hs =>
        exact (ra.step (.send _ k (by simpa using hs))).trans (ih _ hrest)
    | close => exact (ra.step (.close _)).trans (ih _ hrest)
    | read k =>
      have hk : 0 < k := by
        have := hn (t, .read k) (List.mem_cons_self ..)
        cases k with
        | zero => simp [wd_readPos] at this
        | succ k => omega
      exact (ra.step (.read _ k hk)).trans (ih _ hrest)
    | drop => exact (ra.step (.drop _)).trans (ih _ hrest)

theorem wd_run_append (s : St) (e1 e2 : List (Nat × Ev)) :
    run s (e1 ++ e2) = run s e1 ++ run (wd_exec s e1) e2 := by
  induction e1 generalizing s with
  | nil => rfl
  | cons e rest ih =>
    obtain ⟨t, ev⟩ := e
    cases ev <;> simp [run, wd_exec, ih]

end Wd
end Atto
