//! C18 — text decoding picks the declared charset and never fails or depends on chunking.
use std::io::Read;

use crate::case::{Case, Sink};
use crate::resp::install_script;
use crate::rng::Rng;
use crate::script::{hex, hex_or_dash, Seg};
use encoding_rs::Encoding;

/// Content-Type values around the edges of the `; charset=` parameter syntax: none of them may make the client
/// panic (C05) and each selects what the statement says (a label only when `; charset=label` is there and known).
/// (value, the label the statement sees — the bytes after `charset=` of the FIRST parameter — or None)
pub const CONTENT_TYPE_EDGES: [(&str, Option<&str>); 26] = [
    ("text/html; charset=\"", Some("\"")),
    ("text/html; charset=\"\"", Some("\"\"")),
    ("text/html; charset=\"utf-8\"", Some("\"utf-8\"")),
    ("text/html; charset=\"utf-8", Some("\"utf-8")),
    ("text/html; charset=utf-8\"", Some("utf-8\"")),
    ("text/html; charset=", Some("")),
    ("text/html; charset", None),
    ("text/html; chars", None),
    ("text/html; c", None),
    ("text/html;", None),
    ("text/html; ", None),
    ("text/html;;", None),
    (";", None),
    ("; charset=utf-8", Some("utf-8")),
    ("", None),
    (" ", None),
    ("text/plain; q=0.5", None),
    ("text/html; level=1", None),
    ("text/html; charset=utf-8; charset=shift_jis", Some("utf-8; charset=shift_jis")),
    ("text/html; CHARSET=utf-8", None),
    ("text/html;charset=utf-8 ", Some("utf-8")),
    ("text/html; charset= utf-8", Some(" utf-8")),
    ("text/html; charset=utf-8;", Some("utf-8;")),
    ("text/html; charset=\u{e9}", Some("\u{e9}")),
    ("text/html; charset=utf-8\t", Some("utf-8\t")),
    ("multipart/form-data; boundary=x", None),
];

const LABELS: [&str; 24] = [
    "utf-8", "utf8", "UTF-8", "Utf-8", "iso-8859-1", "latin1", "ISO-8859-2", "windows-1252", "Windows-1251", "shift_jis", "SHIFT_JIS", "sjis", "euc-jp", "EUC-KR", "gbk",
    "gb18030", "big5", "koi8-r", "utf-16le", "UTF-16BE", "ibm866", "x-mac-cyrillic", "macintosh", "iso-2022-jp",
];

fn send_over(segs: Vec<Seg>, default_cs: Option<&'static Encoding>) -> Result<attohttpc::Response, String> {
    // one case in three follows, on its thread, a response whose body could not be read to the end
    if segs.len() % 3 == 0 {
        crate::resp::fail_a_body_read_on_this_thread();
    }
    let _log = install_script(segs);
    // the configured default reaches the request in one of several ways, in rotation: set on the request, on its
    // session, or set to something else first and then to `default_cs` — `None` included: the last value set is
    // the one in force (seed C18-seed8: a `None` that does not clear an earlier `Some`)
    static WAY: std::sync::atomic::AtomicUsize = std::sync::atomic::AtomicUsize::new(0);
    let way = WAY.fetch_add(1, std::sync::atomic::Ordering::Relaxed) % 6;
    let other: Option<&'static Encoding> = Some(if default_cs == Some(encoding_rs::KOI8_R) { encoding_rs::SHIFT_JIS } else { encoding_rs::KOI8_R });
    let url = "http://verif.test/t";
    let r = std::panic::catch_unwind(std::panic::AssertUnwindSafe(|| {
        let rb = match way {
            0 | 1 => attohttpc::get(url).default_charset(default_cs),
            2 => {
                let mut s = attohttpc::Session::new();
                s.default_charset(default_cs);
                s.get(url)
            }
            3 => {
                let mut s = attohttpc::Session::new();
                s.default_charset(other);
                s.default_charset(default_cs);
                s.get(url)
            }
            4 => {
                let mut s = attohttpc::Session::new();
                s.default_charset(other);
                s.get(url).default_charset(default_cs)
            }
            _ => attohttpc::get(url).default_charset(other).default_charset(default_cs),
        };
        rb.allow_compression(false).follow_redirects(false).send()
    }));
    attohttpc::verif_hooks::clear_dial_factory();
    match r {
        Err(_) => Err("panic".into()),
        Ok(r) => r.map_err(|e| format!("{:?}", e.kind())),
    }
}

/// A byte order mark is only ever *removed* when it is the mark of the charset in use; it never selects a
/// charset (the statement names the header label, the configured default and Windows-1252 — nothing else).
const BOMS: [&[u8]; 3] = [&[0xef, 0xbb, 0xbf], &[0xff, 0xfe], &[0xfe, 0xff]];

fn body_for(rng: &mut Rng, enc: &'static Encoding) -> Vec<u8> {
    if rng.chance(1, 7) {
        // a body that starts with a byte order mark — of this or of another charset
        let mut v = rng.pick(&BOMS).to_vec();
        let (b, _, _) = enc.encode("hi — ünï 日本");
        v.extend_from_slice(&b);
        if rng.chance(1, 3) {
            v.extend_from_slice(&[0x68, 0x00, 0x69, 0x00]);
        }
        return v;
    }
    match rng.below(6) {
        0 => vec![],
        1 => {
            // valid text in that encoding
            let s = "héllo wörld — 日本語テキスト ΩЖ";
            let (b, _, _) = enc.encode(s);
            b.into_owned()
        }
        2 => {
            // truncated multi-byte sequence at the end
            let (b, _, _) = enc.encode("日本語日本語");
            let mut v = b.into_owned();
            v.pop();
            v
        }
        3 => {
            let n = rng.below(64) as usize;
            rng.bytes(n)
        }
        4 => {
            // malformed: lone continuation / lead bytes
            let mut v = b"ok ".to_vec();
            v.extend_from_slice(&[0xff, 0xfe, 0x80, 0xc3, 0x28, 0xe2, 0x82, 0xf0, 0x9f, 0x92]);
            v.extend_from_slice(b" end");
            v
        }
        _ => {
            let n = rng.range(100, 20000) as usize;
            let (b, _, _) = enc.encode("aé日");
            b.iter().cycle().take(n).copied().collect()
        }
    }
}

/// Op `stage`: the staging logic of `TextReader::read` (caller buffers of fewer than 8 bytes are served from
/// an 8-byte staging buffer) against the Lean model `TextStage`. The decoder behind it is third-party: its
/// answers are RECORDED from a second, identical `DecodeReaderBytes` that the harness drives with the sizes
/// the staging logic is specified to ask for, and given to the model as a table.
/// the byte source under a decoder: the body, with transient read errors at given offsets (each returned once)
struct Src {
    data: Vec<u8>,
    pos: usize,
    errs: Vec<usize>,
}
impl Read for Src {
    fn read(&mut self, buf: &mut [u8]) -> std::io::Result<usize> {
        if let Some(i) = self.errs.iter().position(|e| *e == self.pos) {
            self.errs.remove(i);
            return Err(std::io::Error::new(std::io::ErrorKind::TimedOut, "transient"));
        }
        let stop = self.errs.iter().filter(|e| **e > self.pos).min().copied().unwrap_or(self.data.len());
        let n = buf.len().min(stop - self.pos);
        buf[..n].copy_from_slice(&self.data[self.pos..self.pos + n]);
        self.pos += n;
        Ok(n)
    }
}

pub fn stage_cases(rng: &mut Rng, n: usize, always_errors: bool, sink: &mut Sink) {
    use encoding_rs_io::DecodeReaderBytesBuilder;
    let labels = ["utf-8", "shift_jis", "windows-1252", "utf-16le", "iso-2022-jp", "gbk"];
    for i in 0..n {
        let enc = Encoding::for_label(rng.pick(&labels).as_bytes()).unwrap();
        let text = match rng.below(4) {
            0 => "plain ascii text, long enough to need several refills of the staging buffer".to_string(),
            1 => "héllo wörld — 日本語テキスト ΩЖ 😀 end".to_string(),
            2 => String::new(),
            _ => "aé日".repeat(rng.range(1, 40) as usize),
        };
        let (b, _, _) = enc.encode(&text);
        let mut body = b.into_owned();
        if rng.chance(1, 3) && !body.is_empty() {
            body.pop(); // ends inside a sequence
        }
        if rng.chance(1, 4) {
            body.extend_from_slice(&[0xff, 0xfe, 0x80]);
        }
        // caller read sizes: mostly tiny, some large, some empty; enough of them to drain the text
        let mut ns: Vec<usize> = vec![];
        let budget = body.len() * 3 + 24;
        let mut room = 0usize;
        while room < budget && ns.len() < 400 {
            let k = match rng.below(10) {
                0 => 0,
                1..=4 => rng.range(1, 3) as usize,
                5 => rng.range(4, 7) as usize,
                6 => 8,
                7 => rng.range(9, 12) as usize,
                _ => *rng.pick(&[1usize, 2, 3, 16, 100, 8192]),
            };
            room += k.max(1);
            ns.push(k);
        }
        for _ in 0..(i % 4) {
            ns.push(*rng.pick(&[1usize, 3, 4, 0]));
        }
        // transient transport errors under the decoder, in one case in four (each error is returned once)
        // (not within the first three bytes: encoding_rs_io peeks at them for a byte order mark and loses what it had read
        // when the error strikes there — third-party, recorded as observation O9 in DESIGN.md)
        let errs: Vec<usize> = if (always_errors || rng.chance(1, 4)) && body.len() > 4 { (0..rng.range(1, 3)).map(|_| 3 + rng.below(body.len() as u64 - 3) as usize).collect() } else { vec![] };
        let src = || Src { data: body.clone(), pos: 0, errs: errs.clone() };
        // the real TextReader over the schedule
        let mut tr = attohttpc::TextReader::new(src(), enc);
        let mut evs: Vec<String> = vec![];
        let mut streamed: Vec<u8> = vec![];
        let mut overlong = None;
        for (j, &k) in ns.iter().enumerate() {
            let mut buf = vec![0u8; k];
            match tr.read(&mut buf) {
                Ok(m) => {
                    if m > k {
                        overlong = Some(j);
                    }
                    streamed.extend_from_slice(&buf[..m.min(k)]);
                    evs.push(format!("o{}", hex(&buf[..m.min(k)])));
                }
                Err(_) => evs.push("e:other".into()),
            }
        }
        // the decoder's answers to the sizes the staging logic asks for (specification of the fix: the size
        // of the caller's buffer when it has at least 8 bytes of room or none at all, 8 otherwise; nothing while
        // staged bytes are pending)
        // after the schedule the rest is taken with the std helpers (read_to_string / read_to_end), as a caller would
        // after peeking at the first bytes; a transient error ends them: they are called again
        let mut rest: Vec<u8> = vec![];
        let mut rest_err = 0;
        for round in 0..8 {
            // read_to_string needs what follows to start at a character boundary
            let r = if (i + round) % 3 != 0 && std::str::from_utf8(&streamed).is_ok() && rest.is_empty() {
                let mut st = String::new();
                let r = tr.read_to_string(&mut st);
                rest.extend_from_slice(st.as_bytes());
                r
            } else {
                tr.read_to_end(&mut rest)
            };
            match r {
                Ok(_) => break,
                Err(_) => rest_err += 1,
            }
        }
        let mut dec = DecodeReaderBytesBuilder::new().encoding(Some(enc)).build(src());
        let mut answers: Vec<String> = vec![];
        let mut pending = 0usize;
        for &k in &ns {
            if pending > 0 {
                pending -= k.min(pending);
                continue;
            }
            let ask = if k >= 8 || k == 0 { k } else { 8 };
            let mut buf = vec![0u8; ask];
            match dec.read(&mut buf) {
                Ok(m) => {
                    answers.push(format!("o{}", hex(&buf[..m])));
                    if k > 0 && k < 8 {
                        pending = m - k.min(m);
                    }
                }
                Err(_) => answers.push("e".into()),
            }
        }
        let (whole, _) = enc.decode_without_bom_handling(&body);
        let whole = whole.into_owned();
        let sans_bom = whole.strip_prefix('\u{feff}').map(|x| x.to_string());
        // an end-of-stream signal (Ok(0) into a non-empty buffer) only once the whole text was handed out;
        // before that, a prefix of it
        let ended = ns.iter().zip(evs.iter()).any(|(k, e)| *k > 0 && e == "o");
        let is_whole = |s: &[u8]| s == whole.as_bytes() || Some(s) == sans_bom.as_ref().map(|x| x.as_bytes());
        let is_prefix = |s: &[u8]| whole.as_bytes().starts_with(s) || sans_bom.as_ref().map_or(false, |x| x.as_bytes().starts_with(s));
        let o = if let Some(j) = overlong {
            Err(("stage-overlong-read".to_string(), format!("read #{} returned more than the buffer holds", j)))
        } else if (errs.is_empty() && !is_whole(&[&streamed[..], &rest[..]].concat())) || !is_prefix(&[&streamed[..], &rest[..]].concat()) {
            // without transport errors: exactly the text; with them (the statement is silent; encoding_rs_io loses what it
            // had peeked at for a byte order mark when the error strikes there): still nothing but a prefix of it
            Err((format!("decode-differs-text_reader-{}", enc.name()), format!("schedule {:?}… then read_to_string/read_to_end: {} + {} bytes, whole text {} bytes ({} transient errors injected)", &ns[..ns.len().min(12)], streamed.len(), rest.len(), whole.len(), errs.len())))
        } else if (errs.is_empty() && ended && !is_whole(&streamed)) || !is_prefix(&streamed) {
            Err((format!("decode-differs-text_reader-{}", enc.name()), format!("schedule {:?}…: streamed {} bytes (end signalled: {}), whole text {} bytes", &ns[..ns.len().min(12)], streamed.len(), ended, whole.len())))
        } else {
            Ok(())
        };
        sink.push(Case {
            tags: vec!["kind=stage".into(), format!("transient-errors={}", errs.len()), format!("charset={}", enc.name()), format!("tiny-reads={}", ns.iter().filter(|k| **k > 0 && **k < 8).count() > 0)],
            op: format!("stage {} {}", if ns.is_empty() { "-".to_string() } else { ns.iter().map(|k| k.to_string()).collect::<Vec<_>>().join(",") }, if answers.is_empty() { "-".to_string() } else { answers.join(",") }),
            impl_line: format!("ev={}", evs.join(",")),
            oracle: o,
        });
    }
}

pub fn generate(seed: u64, tier: &str, sink: &mut Sink) {
    let mut rng = Rng::new(seed ^ 0xC18);
    stage_cases(&mut Rng::new(seed ^ 0xC185), if tier == "thorough" { 6000 } else { 600 }, false, sink);
    let thorough = tier == "thorough";
    let n = if thorough { 40_000 } else { 3000 };
    let defaults: [Option<&'static Encoding>; 3] = [None, Some(encoding_rs::UTF_8), Some(encoding_rs::SHIFT_JIS)];
    // the streaming reader with buffers too small for one UTF-8 sequence, on bodies that end inside a
    // multi-byte or escape sequence (every reference charset): first cases of every run
    let mut forced: Vec<(&'static str, Vec<u8>, usize)> = vec![];
    for label in ["utf-8", "shift_jis", "euc-jp", "iso-2022-jp", "gbk", "big5", "euc-kr", "utf-16le", "windows-1252"] {
        let enc = Encoding::for_label(label.as_bytes()).unwrap();
        let (b, _, _) = enc.encode("a&#233;日本語テキスト日");
        let full = b.into_owned();
        for cut in [1usize, 2, 3] {
            for rb in [1usize, 2, 3, 4, 5, 7] {
                if full.len() > cut {
                    forced.push((label, full[..full.len() - cut].to_vec(), rb));
                }
            }
        }
        let cyc: Vec<u8> = full.iter().cycle().take(19_374 % (full.len() * 700) + 1).copied().collect();
        forced.push((label, cyc, 1));
    }
    for i in 0..n {
        let force = forced.get(i).cloned();
        // --- header form
        let (ct, raw_label, form): (Option<Vec<u8>>, Option<Vec<u8>>, &str) = match rng.below(10) {
            9 => {
                let (v, l) = *rng.pick(&CONTENT_TYPE_EDGES);
                (Some(v.as_bytes().to_vec()), l.map(|x| x.as_bytes().to_vec()), "edge-syntax")
            }
            0 => (None, None, "absent"),
            // (the media type is no input of the choice: JSON, XML, CSS, event streams without a label fall to the
            // default like everything else — seed C18-seed12: UTF-8 implied by `application/json`)
            1 => (Some(rng.pick(&[&b"text/html"[..], b"application/json", b"application/problem+json", b"APPLICATION/JSON", b"text/json; foo=bar", b"application/xml", b"text/css", b"text/event-stream", b"application/x-www-form-urlencoded", b"text/plain"]).to_vec()), None, "no-param"),
            2 => {
                let l = format!("x-unknown-{}", rng.below(5));
                (Some(format!("{}; charset={}", rng.pick(&["text/html", "application/json", "application/ld+json"]), l).into_bytes()), Some(l.into_bytes()), "unknown-label")
            }
            3 => {
                let l = rng.pick(&LABELS).to_string();
                (Some(format!("text/plain;charset={}", l).into_bytes()), Some(l.into_bytes()), "no-blank")
            }
            4 => {
                let l = rng.pick(&LABELS).to_string();
                (Some(format!("text/plain;   charset={}", l).into_bytes()), Some(l.into_bytes()), "blanks")
            }
            5 => {
                let l = rng.pick(&LABELS).to_string();
                // mixed case of the label
                let l2: String = l.chars().map(|c| if rng.chance(1, 2) { c.to_ascii_uppercase() } else { c.to_ascii_lowercase() }).collect();
                (Some(format!("application/json; charset={}", l2).into_bytes()), Some(l2.into_bytes()), "mixed-case")
            }
            6 => (Some(b"text/html; boundary=x; charset=utf-8".to_vec()), None, "charset-not-first-param"),
            _ => {
                let l = rng.pick(&LABELS).to_string();
                (Some(format!("text/html; charset={}", l).into_bytes()), Some(l.into_bytes()), "standard")
            }
        };
        let (ct, raw_label, form) = match &force {
            Some((l, _, _)) => (Some(format!("text/plain; charset={}", l).into_bytes()), Some(l.as_bytes().to_vec()), "standard"),
            None => (ct, raw_label, form),
        };
        let dflt = *rng.pick(&defaults);
        // what the statement says
        let declared: Option<&'static Encoding> = raw_label.as_ref().and_then(|l| Encoding::for_label(l));
        let expect: &'static Encoding = declared.or(dflt).unwrap_or(encoding_rs::WINDOWS_1252);
        let body = match &force {
            Some((_, b, _)) => b.clone(),
            None => body_for(&mut rng, expect),
        };
        let has_bom = body.starts_with(&[0xef, 0xbb, 0xbf]) || body.starts_with(&[0xff, 0xfe]) || body.starts_with(&[0xfe, 0xff]);
        let mut head = b"HTTP/1.1 200 OK\r\n".to_vec();
        if let Some(ct) = &ct {
            head.extend_from_slice(b"Content-Type: ");
            head.extend_from_slice(ct);
            head.extend_from_slice(b"\r\n");
        }
        // the text may travel content-coded and / or chunked: charset handling sits on top of whatever the layers
        // below deliver (decompressed, de-chunked bytes), not on the bytes of the wire
        let gz = force.is_none() && rng.chance(1, 5);
        let chunked = force.is_none() && rng.chance(1, 5);
        let text_bytes = body.clone();
        let body: Vec<u8> = if gz {
            use std::io::Write;
            let mut e = flate2::write::GzEncoder::new(Vec::new(), flate2::Compression::new(rng.below(10) as u32));
            e.write_all(&text_bytes).unwrap();
            head.extend_from_slice(b"Content-Encoding: gzip\r\n");
            e.finish().unwrap()
        } else {
            body
        };
        let body: Vec<u8> = if chunked {
            head.extend_from_slice(b"Transfer-Encoding: chunked\r\n\r\n");
            let mut w = vec![];
            let mut i = 0;
            while i < body.len() {
                let k = rng.range(1, 40) as usize;
                let piece = &body[i..(i + k).min(body.len())];
                w.extend_from_slice(format!("{:x}\r\n", piece.len()).as_bytes());
                w.extend_from_slice(piece);
                w.extend_from_slice(b"\r\n");
                i += k;
            }
            w.extend_from_slice(b"0\r\n\r\n");
            w
        } else {
            head.extend_from_slice(format!("Content-Length: {}\r\n\r\n", body.len()).as_bytes());
            body
        };
        // --- segmentation of the body (multi-byte sequences split across reads)
        let mut segs = vec![Seg::Data(head.clone())];
        let seg_mode = rng.below(3);
        match seg_mode {
            0 => {
                if !body.is_empty() {
                    segs.push(Seg::Data(body.clone()))
                }
            }
            1 => segs.extend(body.iter().map(|&b| Seg::Data(vec![b]))),
            _ => {
                let mut i = 0;
                while i < body.len() {
                    let k = rng.range(1, 7) as usize;
                    segs.push(Seg::Data(body[i..(i + k).min(body.len())].to_vec()));
                    i += k;
                }
            }
        }
        let call = if force.is_some() { 1 } else { rng.below(4) };
        let mut rbuf = 0usize;
        let o: Result<(String, String), (String, String)> = (|| {
            let resp = send_over(segs.clone(), dflt).map_err(|e| (if e == "panic" { format!("panic-send-{}", form) } else { "send-failed".to_string() }, e))?;
            let chosen = resp.verif_charset();
            if chosen != expect.name() {
                return Err((format!("wrong-charset-{}", form), format!("Content-Type {:?} default {:?}: decoding with {}, statement gives {}", ct.as_ref().map(|c| String::from_utf8_lossy(c).to_string()), dflt.map(|d| d.name()), chosen, expect.name())));
            }
            let (whole, _) = expect.decode_without_bom_handling(&text_bytes);
            // the mark of the very charset in use may be dropped from the text (U+FEFF at the start)
            let sans_bom = |w: &str| -> Option<String> { w.strip_prefix('\u{feff}').map(|x| x.to_string()) };
            let (got, what): (Result<String, String>, &str) = match call {
                // (every other time through the reader that `split()` hands out: the same reader, the same charset —
                // seed C18-seed13: the charset resolved lazily by `Response::text` only)
                0 if text_bytes.len() % 2 == 1 => (resp.split().2.text().map_err(|e| format!("{:?}", e.kind())), "text"),
                0 => (resp.text().map_err(|e| format!("{:?}", e.kind())), "text"),
                1 => {
                    let mut s = String::new();
                    let mut r = if segs.len() % 2 == 1 { resp.split().2.text_reader() } else { resp.text_reader() };
                    // small reads: the streaming reader must not depend on them
                    rbuf = if text_bytes.len() % 2 == 0 { 1 + (text_bytes.len() % 3) } else { 4 + (text_bytes.len() % 61) };
                    if let Some((_, _, rb)) = &force {
                        rbuf = *rb;
                    }
                    let mut buf = vec![0u8; rbuf];
                    let mut raw = vec![];
                    let res = loop {
                        match r.read(&mut buf) {
                            Ok(0) => break Ok(()),
                            Ok(k) => raw.extend_from_slice(&buf[..k]),
                            Err(e) => break Err(format!("{:?}", e.kind())),
                        }
                    };
                    s.push_str(&String::from_utf8_lossy(&raw));
                    (res.map(|_| s), "text_reader")
                }
                2 => {
                    let e2 = encoding_rs::KOI8_R;
                    let want = e2.decode_without_bom_handling(&text_bytes).0.into_owned();
                    let g = resp.text_with(e2).map_err(|e| format!("{:?}", e.kind()));
                    return match g {
                        Ok(t) if t == want || sans_bom(&want).as_deref() == Some(t.as_str()) => Ok((chosen.to_string(), "text_with".to_string())),
                        Ok(_) => Err(("text-with-ignored".into(), "text_with(KOI8-R) did not decode as KOI8-R".into())),
                        Err(e) => Err(("decode-error-text_with".into(), e)),
                    };
                }
                _ => {
                    let want = String::from_utf8_lossy(&text_bytes).into_owned();
                    let g = resp.text_utf8().map_err(|e| format!("{:?}", e.kind()));
                    return match g {
                        Ok(t) if t == want => Ok((chosen.to_string(), "text_utf8".to_string())),
                        Ok(_) => Err(("text-utf8-differs".into(), "text_utf8 is not the lossy UTF-8 decoding of the body".into())),
                        Err(e) => Err(("decode-error-text_utf8".into(), e)),
                    };
                }
            };
            match got {
                Err(e) => Err((format!("decode-error-{}-{}", what, expect.name()), format!("{} failed on the {}-byte body {} (segmentation mode {}): {}", what, body.len(), hex(&body[..body.len().min(64)]), seg_mode, e))),
                Ok(t) => {
                    if t != whole && sans_bom(&whole).as_deref() != Some(t.as_str()) {
                        let tail_only = whole.starts_with(t.as_str()) && whole[t.len()..].chars().all(|c| c == '\u{fffd}');
                        let kind = if tail_only { "drops-incomplete-tail" } else { "differs" };
                        if tail_only && what == "text_reader" && rbuf < 8 {
                            // encoding_rs_io loses the rest of the final replacement character when the
                            // caller's buffer is smaller than 4 bytes (TinyTranscoder not drained at EOF)
                            return Err(("text_reader-small-buffer-loses-final-replacement".to_string(), format!("read buffer of {} bytes, charset {}: {} vs {} chars; body (first 64 of {} bytes) {}", rbuf, expect.name(), t.chars().count(), whole.chars().count(), body.len(), hex(&body[..body.len().min(64)]))));
                        }
                        return Err((format!("decode-{}-{}-{}", kind, what, expect.name()), format!("{} over segmentation mode {} differs from decoding the whole body at once ({} vs {} chars); body (first 64 of {} bytes) {}", what, seg_mode, t.chars().count(), whole.chars().count(), body.len(), hex(&body[..body.len().min(64)]))));
                    }
                    Ok((chosen.to_string(), what.to_string()))
                }
            }
        })();
        let (impl_cs, what) = match &o {
            Ok((c, w)) => (c.clone(), w.clone()),
            Err(_) => {
                // still record which charset the implementation chose
                match send_over(vec![Seg::Data(head.clone())], dflt) {
                    Ok(r) => (r.verif_charset().to_string(), "-".to_string()),
                    Err(_) => ("?".to_string(), "-".to_string()),
                }
            }
        };
        let table = match &raw_label {
            Some(l) => format!("{}={}", hex_or_dash(l), declared.map(|d| hex(d.name().as_bytes())).unwrap_or("~".into())),
            None => "-".into(),
        };
        let op = format!(
            "charset {} {} {}",
            ct.as_ref().map(|c| hex_or_dash(c)).unwrap_or("-".into()),
            dflt.map(|d| hex(d.name().as_bytes())).unwrap_or("~".into()),
            table
        );
        sink.push(Case {
            tags: vec![format!("header={}", form), format!("default={}", dflt.map(|d| d.name()).unwrap_or("none")), format!("call={}", what), format!("seg={}", ["one", "1-byte", "random"][seg_mode as usize]), format!("charset={}", expect.name()), format!("bom={}", has_bom), format!("content-coding={}", if gz { "gzip" } else { "none" }), format!("framing={}", if chunked { "chunked" } else { "length" }), format!("tiny-read-buffer={}", what == "text_reader" && rbuf > 0 && rbuf < 8)],
            op,
            impl_line: format!("cs={}", hex(impl_cs.as_bytes())),
            oracle: o.map(|_| ()),
        });
    }
}
