/-
  Atto/Lemmas/FieldLines.lean — the header loop on ARBITRARY field lines (valid, invalid name, no
  colon, bad value): every line counts against `max_headers`, so `mh + 1` or more lines make the
  loop stop with an error after at most `mh + 1` of them. Used by Props/C05b.
-/
import Atto.Lemmas.Bounded
namespace Atto

/-- lines as the peer writes them: each non-empty, without CR or LF inside, short enough for the line limit -/
def FieldLinesOK (lines : List Bytes) : Prop :=
  ∀ l ∈ lines, l ≠ [] ∧ (10 : UInt8) ∉ l ∧ (13 : UInt8) ∉ l ∧ l.length + 2 ≤ Consts.maxLineLen

def renderLines (lines : List Bytes) : Bytes := lines.flatMap (· ++ [13, 10])

instance FieldLinesOK.dec (lines : List Bytes) : Decidable (FieldLinesOK lines) := by
  unfold FieldLinesOK; infer_instance

@[simp] theorem renderLines_nil : renderLines [] = [] := rfl
@[simp] theorem renderLines_cons (l : Bytes) (ls : List Bytes) :
    renderLines (l :: ls) = l ++ [13, 10] ++ renderLines ls := by
  simp [renderLines]

theorem renderLines_length (ls : List Bytes) : ls.length ≤ (renderLines ls).length := by
  induction ls with
  | nil => simp
  | cons l ls ih =>
    simp only [renderLines_cons, List.length_append, List.length_cons]
    omega

/-- The header loop with the counter at `cnt ≤ mh`, on more than `mh - cnt` arbitrary field lines:
    it stops with an error after at most `mh - cnt + 1` of them, and what follows is not consumed. -/
theorem parseHeadersLoop_lines_bounded (lines : List Bytes) : ∀ (fuel : Nat) (rest : List Item)
    (mh cnt : Nat) (acc : Headers), FieldLinesOK lines → lines.length < fuel → cnt ≤ mh →
    mh - cnt < lines.length →
    ∃ e k, k ≤ mh - cnt ∧
      parseHeadersLoop flatSrc fuel (bytesI (renderLines lines) ++ rest) mh cnt acc =
        (.err e, bytesI (renderLines (lines.drop (k + 1))) ++ rest) := by
  induction lines with
  | nil => intro fuel rest mh cnt acc _ _ _ h; simp at h
  | cons l ls ih =>
    intro fuel rest mh cnt acc hok hf hc hn
    cases fuel with
    | zero => simp at hf
    | succ fuel =>
      obtain ⟨hne, -, h13, hlen⟩ := hok l (by simp)
      have hok' : FieldLinesOK ls := fun x hx => hok x (List.mem_cons_of_mem l hx)
      have hs : bytesI (renderLines (l :: ls)) ++ rest
          = bytesI (l ++ [13, 10]) ++ (bytesI (renderLines ls) ++ rest) := by
        simp
      have hrl := readLineStrict_line l Consts.maxLineLen (bytesI (renderLines ls) ++ rest) h13 hlen
      simp only [List.length_cons] at hf hn
      unfold parseHeadersLoop
      rw [hs, hrl]
      simp only [hne, if_false]
      by_cases he : cnt = mh
      · rw [if_pos he]
        exact ⟨.header, 0, Nat.zero_le _, by simp⟩
      · rw [if_neg he]
        have step : ∀ acc', ∃ e k, k ≤ mh - cnt ∧
            parseHeadersLoop flatSrc fuel (bytesI (renderLines ls) ++ rest) mh (cnt + 1) acc' =
              (.err e, bytesI (renderLines ((l :: ls).drop (k + 1))) ++ rest) := by
          intro acc'
          obtain ⟨e, k, hk, hr⟩ := ih fuel rest mh (cnt + 1) acc' hok' (by omega) (by omega) (by omega)
          exact ⟨e, k + 1, by omega, by simpa using hr⟩
        cases parseFieldLine l with
        | bad e => exact ⟨e, 0, Nat.zero_le _, by simp⟩
        | skip => exact step acc
        | field n v =>
          simp only
          split
          · exact ⟨.header, 0, Nat.zero_le _, by simp⟩
          · exact step _

/-- After the status line, ANY `mh + 1` or more field lines make the head parser (flat stream) stop
    with an error after at most `mh + 1` of them. -/
theorem head_lines_bounded (statusLine : Bytes) (lines : List Bytes) (rest : List Item) (mh : Nat)
    (hs : (10 : UInt8) ∉ statusLine ∧ statusLine.length + 2 ≤ Consts.maxLineLen ∧
      (∃ c, parseStatusLine statusLine = .ok c))
    (hl : FieldLinesOK lines) (hn : mh < lines.length) :
    ∃ e k, k ≤ mh ∧
      parseResponseHead flatSrc (bytesI (statusLine ++ [13, 10] ++ renderLines lines) ++ rest) mh =
        (.err e, bytesI (renderLines (lines.drop (k + 1))) ++ rest) := by
  obtain ⟨h10, hlen, c, hc⟩ := hs
  have hsp : bytesI (statusLine ++ [13, 10] ++ renderLines lines) ++ rest
      = bytesI (statusLine ++ [13, 10]) ++ (bytesI (renderLines lines) ++ rest) := by
    simp
  obtain ⟨e, k, hk, hr⟩ := parseHeadersLoop_lines_bounded lines
    (headFuel flatSrc (bytesI (renderLines lines) ++ rest)) rest mh 0 [] hl
    (by have := renderLines_length lines; simp [headFuel]; omega) (Nat.zero_le _) (by omega)
  refine ⟨e, k, by omega, ?_⟩
  unfold parseResponseHead
  rw [hsp, readLine_crlf_line _ _ _ h10 hlen]
  simp only [hc]
  rw [hr]

end Atto
