/-
  Atto/Lemmas/TextStageLemmas.lean — helper lemmas for `Atto/Props/C18s.lean` (the staging buffer of
  `TextReader`, model `Atto/Model/TextStage.lean`).
-/
import Atto.Model.TextStage
namespace Atto

variable {σ : Type}

/-- the bytes of one event (`[]` for a non-`Ok` one) -/
def evBytes : RR Bytes → Bytes
  | .ok bs => bs
  | _ => []

/-- the non-`Ok` events (errors / blocked / panic) of a run, in order -/
def nonOk (l : List (RR Bytes)) : List (RR Bytes) := l.filter (fun e => !e.isOk)

/-- the size the decoder is asked for by a caller read of `n` bytes when nothing is staged -/
def askSize (n : Nat) : Nat := if stageMin ≤ n ∨ n = 0 then n else stageCap

theorem okBytes_cons (e : RR Bytes) (r : List (RR Bytes)) :
    okBytes (e :: r) = evBytes e ++ okBytes r := by
  cases e <;> simp [okBytes, evBytes]

theorem nonOk_cons (e : RR Bytes) (r : List (RR Bytes)) : nonOk (e :: r) = nonOk [e] ++ nonOk r := by
  cases e <;> simp [nonOk, RR.isOk]

@[simp] theorem nonOk_nil : nonOk [] = [] := rfl

theorem nonOk_single_ok (bs : Bytes) : nonOk [.ok bs] = [] := by simp [nonOk, RR.isOk]

theorem nonOk_single_of_not_ok (e : RR Bytes) (h : e.isOk = false) : nonOk [e] = [e] := by
  simp [nonOk, h]

theorem askSize_spec (n : Nat) : askSize n = 0 ∨ stageMin ≤ askSize n := by
  unfold askSize
  split
  · rename_i h; rcases h with h | h
    · exact Or.inr h
    · exact Or.inl h
  · exact Or.inr (by decide)

theorem stage_take_append_drop_min (l : Bytes) (n : Nat) :
    l.take n ++ l.drop (min n l.length) = l := by
  by_cases h : n ≤ l.length
  · rw [Nat.min_eq_left h, List.take_append_drop]
  · have h' : l.length ≤ n := Nat.le_of_lt (Nat.not_le.mp h)
    rw [Nat.min_eq_right h', List.take_of_length_le h', List.drop_length, List.append_nil]

theorem runInner_cons (R : InnerRead σ) (i : σ) (n : Nat) (ns : List Nat) :
    runInner R i (n :: ns)
      = ((R i n).1 :: (runInner R (R i n).2 ns).1, (runInner R (R i n).2 ns).2) := rfl

namespace TextStage

theorem run_cons (R : InnerRead σ) (s : TextStage σ) (n : Nat) (ns : List Nat) :
    run R s (n :: ns)
      = ((s.read R n).1 :: (run R (s.read R n).2 ns).1, (run R (s.read R n).2 ns).2) := rfl

theorem innerSizes_cons (R : InnerRead σ) (s : TextStage σ) (n : Nat) (ns : List Nat) :
    innerSizes R s (n :: ns)
      = if s.pos = s.staged.length then askSize n :: innerSizes R (s.read R n).2 ns
        else innerSizes R (s.read R n).2 ns := rfl

/-! ### the four shapes of one `read` -/

theorem read_pass (R : InnerRead σ) (s : TextStage σ) (n : Nat)
    (h1 : s.pos = s.staged.length) (h2 : stageMin ≤ n ∨ n = 0) :
    s.read R n = ((R s.inner n).1, { s with inner := (R s.inner n).2 }) := by
  unfold read
  rw [if_pos h1, if_pos h2]

theorem read_fill_ok (R : InnerRead σ) (s : TextStage σ) (n : Nat)
    (h1 : s.pos = s.staged.length) (h2 : ¬ (stageMin ≤ n ∨ n = 0)) (bs : Bytes)
    (h : (R s.inner stageCap).1 = .ok bs) (hl : bs.length ≤ stageCap) :
    s.read R n = (.ok (bs.take n),
      { inner := (R s.inner stageCap).2, staged := bs, pos := (bs.take n).length }) := by
  unfold read
  rw [if_pos h1, if_neg h2]
  rcases hr : R s.inner stageCap with ⟨r, i'⟩
  rw [hr] at h
  simp only at h
  subst h
  simp only [if_neg (Nat.not_lt.mpr hl)]

theorem read_fill_big (R : InnerRead σ) (s : TextStage σ) (n : Nat)
    (h1 : s.pos = s.staged.length) (h2 : ¬ (stageMin ≤ n ∨ n = 0)) (bs : Bytes)
    (h : (R s.inner stageCap).1 = .ok bs) (hl : stageCap < bs.length) :
    s.read R n = (.panic, { s with inner := (R s.inner stageCap).2 }) := by
  unfold read
  rw [if_pos h1, if_neg h2]
  rcases hr : R s.inner stageCap with ⟨r, i'⟩
  rw [hr] at h
  simp only at h
  subst h
  simp only [if_pos hl]

theorem read_fill_nonok (R : InnerRead σ) (s : TextStage σ) (n : Nat)
    (h1 : s.pos = s.staged.length) (h2 : ¬ (stageMin ≤ n ∨ n = 0))
    (h : (R s.inner stageCap).1.isOk = false) :
    s.read R n = ((R s.inner stageCap).1, { s with inner := (R s.inner stageCap).2 }) := by
  unfold read
  rw [if_pos h1, if_neg h2]
  rcases hr : R s.inner stageCap with ⟨r, i'⟩
  rw [hr] at h
  simp only at h
  cases r <;> simp_all [RR.isOk]

theorem read_served (R : InnerRead σ) (s : TextStage σ) (n : Nat)
    (h : s.pos < s.staged.length) :
    s.read R n = (.ok ((s.staged.drop s.pos).take n),
      { s with pos := s.pos + ((s.staged.drop s.pos).take n).length }) := by
  unfold read
  rw [if_neg (Nat.ne_of_lt h), if_neg (Nat.lt_asymm h)]

theorem read_underflow (R : InnerRead σ) (s : TextStage σ) (n : Nat)
    (h : s.staged.length < s.pos) : s.read R n = (.panic, s) := by
  unfold read
  rw [if_neg (Nat.ne_of_gt h), if_pos h]

/-! ### one step, seen from the decoder -/

/-- a caller read when nothing is staged: exactly one decoder call, of size `askSize n` -/
theorem step_called (R : InnerRead σ)
    (hR : ∀ i n, ∀ bs, (R i n).1 = .ok bs → bs.length ≤ n)
    (s : TextStage σ) (n : Nat) (h1 : s.pos = s.staged.length) (hcap : s.staged.length ≤ stageCap) :
    (s.read R n).2.inner = (R s.inner (askSize n)).2
    ∧ (s.read R n).2.Inv
    ∧ evBytes (R s.inner (askSize n)).1 = evBytes (s.read R n).1 ++ (s.read R n).2.pending
    ∧ nonOk [(s.read R n).1] = nonOk [(R s.inner (askSize n)).1] := by
  by_cases h2 : stageMin ≤ n ∨ n = 0
  · have hk : askSize n = n := by simp [askSize, h2]
    rw [read_pass R s n h1 h2, hk]
    refine ⟨rfl, ⟨Nat.le_of_eq h1, hcap⟩, ?_, rfl⟩
    simp [pending, h1]
  · have hk : askSize n = stageCap := by simp [askSize, h2]
    rw [hk]
    cases hr : (R s.inner stageCap).1 with
    | ok bs =>
      have hl : bs.length ≤ stageCap := hR _ _ _ hr
      rw [read_fill_ok R s n h1 h2 bs hr hl]
      refine ⟨rfl, ⟨?_, hl⟩, ?_, ?_⟩
      · simp only [List.length_take]; exact Nat.min_le_right _ _
      · simp only [evBytes, pending, List.length_take]
        exact (stage_take_append_drop_min bs n).symm
      · simp [nonOk, RR.isOk]
    | err e =>
      have hn : (R s.inner stageCap).1.isOk = false := by rw [hr]; rfl
      rw [read_fill_nonok R s n h1 h2 hn, hr]
      refine ⟨rfl, ⟨Nat.le_of_eq h1, hcap⟩, ?_, rfl⟩
      simp [evBytes, pending, h1]
    | blocked =>
      have hn : (R s.inner stageCap).1.isOk = false := by rw [hr]; rfl
      rw [read_fill_nonok R s n h1 h2 hn, hr]
      refine ⟨rfl, ⟨Nat.le_of_eq h1, hcap⟩, ?_, rfl⟩
      simp [evBytes, pending, h1]
    | panic =>
      have hn : (R s.inner stageCap).1.isOk = false := by rw [hr]; rfl
      rw [read_fill_nonok R s n h1 h2 hn, hr]
      refine ⟨rfl, ⟨Nat.le_of_eq h1, hcap⟩, ?_, rfl⟩
      simp [evBytes, pending, h1]

/-- a caller read served from the staging buffer: no decoder call -/
theorem step_served (R : InnerRead σ) (s : TextStage σ) (n : Nat)
    (h : s.pos < s.staged.length) (hcap : s.staged.length ≤ stageCap) :
    (s.read R n).2.inner = s.inner
    ∧ (s.read R n).2.Inv
    ∧ s.pending = evBytes (s.read R n).1 ++ (s.read R n).2.pending
    ∧ nonOk [(s.read R n).1] = [] := by
  rw [read_served R s n h]
  refine ⟨rfl, ⟨?_, hcap⟩, ?_, nonOk_single_ok _⟩
  · simp only [List.length_take, List.length_drop]
    omega
  · simp only [evBytes, pending, List.length_take, List.length_drop]
    rw [← List.drop_drop]
    have := stage_take_append_drop_min (s.staged.drop s.pos) n
    rw [List.length_drop] at this
    exact this.symm

/-! ### invariant and panic-freedom of one `read` (no assumption on the decoder for the invariant) -/

theorem inv_fresh (i : σ) : ({ inner := i } : TextStage σ).Inv := by
  constructor <;> simp [stageCap]

theorem read_inv (R : InnerRead σ) (s : TextStage σ) (n : Nat) (hI : s.Inv) : (s.read R n).2.Inv := by
  rcases Nat.lt_or_eq_of_le hI.1 with hlt | h1
  · exact (step_served R s n hlt hI.2).2.1
  · by_cases h2 : stageMin ≤ n ∨ n = 0
    · rw [read_pass R s n h1 h2]; exact hI
    · cases hr : (R s.inner stageCap).1 with
      | ok bs =>
        by_cases hl : bs.length ≤ stageCap
        · rw [read_fill_ok R s n h1 h2 bs hr hl]
          refine ⟨?_, hl⟩
          simp only [List.length_take]; exact Nat.min_le_right _ _
        · rw [read_fill_big R s n h1 h2 bs hr (Nat.not_le.mp hl)]; exact hI
      | err e =>
        rw [read_fill_nonok R s n h1 h2 (by rw [hr]; rfl)]; exact hI
      | blocked =>
        rw [read_fill_nonok R s n h1 h2 (by rw [hr]; rfl)]; exact hI
      | panic =>
        rw [read_fill_nonok R s n h1 h2 (by rw [hr]; rfl)]; exact hI

theorem run_inv (R : InnerRead σ) (s : TextStage σ) (ns : List Nat) (hI : s.Inv) :
    (run R s ns).2.Inv := by
  induction ns generalizing s with
  | nil => exact hI
  | cons n ns ih => rw [run_cons]; exact ih _ (read_inv R s n hI)

theorem read_panic (R : InnerRead σ)
    (hR : ∀ i n, ∀ bs, (R i n).1 = .ok bs → bs.length ≤ n)
    (s : TextStage σ) (n : Nat) (hI : s.Inv) (hp : (s.read R n).1 = .panic) :
    (R s.inner n).1 = .panic ∨ (R s.inner stageCap).1 = .panic := by
  rcases Nat.lt_or_eq_of_le hI.1 with hlt | h1
  · rw [read_served R s n hlt] at hp; cases hp
  · by_cases h2 : stageMin ≤ n ∨ n = 0
    · rw [read_pass R s n h1 h2] at hp; exact Or.inl hp
    · cases hr : (R s.inner stageCap).1 with
      | ok bs =>
        rw [read_fill_ok R s n h1 h2 bs hr (hR _ _ _ hr)] at hp; cases hp
      | err e =>
        rw [read_fill_nonok R s n h1 h2 (by rw [hr]; rfl), hr] at hp; cases hp
      | blocked =>
        rw [read_fill_nonok R s n h1 h2 (by rw [hr]; rfl), hr] at hp; cases hp
      | panic => exact Or.inr rfl

end TextStage
end Atto
